module verif

go 1.24
