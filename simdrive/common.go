package main

import (
	"bytes"
	"crypto/sha256"
	"encoding/hex"
	"encoding/json"
	"fmt"
	"os"
	"os/exec"
	"path/filepath"
	"sort"
	"strings"
	"sync"
	"time"
)

// infra reports trouble of the machinery itself: exit 2, never a VIOLATION.
func infra(format string, a ...any) {
	fmt.Fprintf(os.Stderr, "INFRA: "+format+"\n", a...)
	os.Exit(2)
}

var batchDeadline time.Time

func deadlinePassed() bool { return !batchDeadline.IsZero() && time.Now().After(batchDeadline) }

// Virtual clock calibration (DESIGN 3.3): the plain build needs 40-110 ns of an idle core
// per tick on analysis work (measured: corpus runs against the plain binary). Taking the
// fastest figure, nothing that needs more than watchdogTicks can finish inside 500 ms.
const (
	nsPerTick     = 40
	watchdogTicks = 500_000_000 / nsPerTick // 12.5 M
	stage2Budget  = 4 * watchdogTicks
)

// preBudget is the input-proportional stage-1 budget: >= 12x the worst fixed cost and the
// worst ticks-per-byte ratio seen over the whole corpus in any mode.
func preBudget(bytesRead int) int64 {
	b := int64(1_500_000) + 2500*int64(bytesRead)
	if b > watchdogTicks+200_000 {
		b = watchdogTicks + 200_000
	}
	return b
}

// ---- cases, findings, replay files -----------------------------------------------------

// Step is one process invocation against the case's disk.
type Step struct {
	Node   string            `json:"node"`
	Files  map[string][]byte `json:"files,omitempty"` // written before this step (adds to earlier steps' files)
	Argv   []string          `json:"argv"`
	Env    map[string]string `json:"env,omitempty"`
	Seed   uint64            `json:"seed"`
	Sched  string            `json:"sched"`
	Only   []int             `json:"only,omitempty"`
	Cfg    string            `json:"cfg,omitempty"` // name of an entry in Case.Configs ("" = Case.Cfg)
	Note   string            `json:"note,omitempty"`
	Paylod json.RawMessage   `json:"payload,omitempty"`
}

// Case is a fully explicit scenario: replaying it needs nothing but the code under test.
type Case struct {
	Prop    string                       `json:"property"`
	Kind    string                       `json:"kind"` // sub-oracle inside the property
	Index   int                          `json:"index"`
	Cfg     string                       `json:"cfg"`               // "shipped-test" | "shipped-root" | "none" | key of Configs
	Configs map[string]map[string][]byte `json:"configs,omitempty"` // inline generated configurations
	Steps   []Step                       `json:"steps"`
	Meta    map[string]string            `json:"meta,omitempty"`
	Faults  []string                     `json:"faults,omitempty"` // fault kinds that fired while building it
	Ctx     string                       `json:"ctx,omitempty"`    // coverage cell (EOF context etc.)
}

type Finding struct {
	Sig  string `json:"signature"`
	What string `json:"what"`
}

type ReplayFile struct {
	Property  string   `json:"property"`
	Signature string   `json:"signature"`
	What      string   `json:"what"`
	VerifSeed uint64   `json:"verif_seed"`
	Tree      string   `json:"tree"`
	Confirm   string   `json:"confirmation,omitempty"`
	EvHashes  []string `json:"event_log_hashes,omitempty"`
	Case      Case     `json:"case"`
}

type Known struct {
	Status   string `json:"status"` // open | fixed
	Property string `json:"property"`
	Sig      string `json:"signature"`
	// InputClass (optional) ties a finding to the inputs that fail rather than to the place
	// where the failure is noticed: Sig is then a prefix ("hang@") and the scenario's target
	// file must belong to the named class (inputClasses). A hang is noticed wherever the
	// watchdog happens to catch it, so the loop home alone would not identify the finding.
	InputClass string `json:"input_class,omitempty"`
	Witness  string `json:"witness,omitempty"`
	What     string `json:"what"`
	Commit   string `json:"commit,omitempty"`
}

// Oracle is what a property contributes.
type Oracle interface {
	// Init prepares enumeration tables for the tier.
	Init(c *Ctx)
	// NCases says how many cases the tier explores.
	NCases(tier string) int
	// Make builds case i from the PRNG streams of (seed, i); nil = skip.
	Make(c *Ctx, i int) *Case
	// Judge runs the case on a worker (simulator only) and returns a finding or nil.
	Judge(c *Ctx, w *Worker, cs *Case) *Finding
	// Confirm decides, sequentially and with the pool drained, whether the minimised
	// candidate is real. It returns ok, and a human-readable account.
	Confirm(c *Ctx, cs *Case, f *Finding) (bool, string)
	// Shrinks proposes smaller variants of a case.
	Shrinks(c *Ctx, cs *Case) []*Case
	// Describe renders a case as an evidence sample.
	Describe(cs *Case) any
}

type Ctx struct {
	Prop, Tier  string
	Seed        uint64
	Repo, Verif string
	Work        string
	Tree        string
	Pool        *Pool
	World       *World
	RealBins    map[string]string
	Corpus      []Prog
	Vocab       []string
	Builtins    []BuiltinMethod
	CfgShipped  string // config id of <repo>/test/.ti-config
	CfgRoot     string // config id of <repo>/.ti-config
	ShippedCfg  map[string][]byte
	Sites       map[int]SiteRec
	Stats       *Stats
	Known       []Known
	start       time.Time
	realMu      sync.Mutex
	cfgCacheMu  sync.Mutex
	cfgCache    map[string]string
}

type SiteRec struct {
	ID   int    `json:"id"`
	Pos  string `json:"pos"`
	Func string `json:"func"`
	Type string `json:"type"`
	Kind string `json:"kind"`
}

type Prog struct {
	Name string
	Src  []byte
}

// Stats is the evidence accumulator (all counters are measured, nothing is a constant).
type Stats struct {
	mu        sync.Mutex
	Cases     int
	Distinct  map[string]bool // distinct non-trivial cells / hashes
	Faults    map[string]int  // fault kinds that fired
	Counters  map[string]int
	Samples   []any
	SiteOrder map[int]map[string]bool // site -> distinct orders (event hashes) seen
	SimNs     int64
}

func NewStats() *Stats {
	return &Stats{Distinct: map[string]bool{}, Faults: map[string]int{}, Counters: map[string]int{}, SiteOrder: map[int]map[string]bool{}}
}
func (s *Stats) Inc(k string) { s.Add(k, 1) }
func (s *Stats) Add(k string, n int) {
	s.mu.Lock()
	s.Counters[k] += n
	s.mu.Unlock()
}
func (s *Stats) Cell(k string) {
	s.mu.Lock()
	s.Distinct[k] = true
	s.mu.Unlock()
}
func (s *Stats) Fault(k string) {
	s.mu.Lock()
	s.Faults[k]++
	s.mu.Unlock()
}
func (s *Stats) Sample(v any, max int) {
	s.mu.Lock()
	if len(s.Samples) < max {
		s.Samples = append(s.Samples, v)
	}
	s.mu.Unlock()
}

// ---- config handling ---------------------------------------------------------------------

func (c *Ctx) cfgID(cs *Case, name string) string {
	if name == "" {
		name = cs.Cfg
	}
	switch name {
	case "shipped-test", "":
		return c.CfgShipped
	case "shipped-root":
		return c.CfgRoot
	case "none":
		return ""
	}
	files, ok := cs.Configs[name]
	if !ok {
		infra("case refers to unknown config %q", name)
	}
	return c.World.AddConfig(files)
}

// RunStep executes one step of a case on a worker.
func (c *Ctx) RunStep(w *Worker, cs *Case, i int, budget int64, keep bool) Result {
	st := &cs.Steps[i]
	j := &Job{Node: st.Node, Cfg: c.cfgID(cs, st.Cfg), Files: st.Files, Keep: keep, Argv: st.Argv, Env: st.Env,
		Seed: st.Seed, Sched: st.Sched, Only: st.Only, Budget: budget, NsTick: nsPerTick, Payload: st.Paylod}
	if st.Node != "ti" {
		j.NsTick = 0
	}
	return w.Exec(j)
}

// RunTi runs a ti step with the two-stage hang verdict. slow=true means the run needed
// more than the pre-budget but finished inside the virtual watchdog window.
func (c *Ctx) RunTi(w *Worker, cs *Case, i int, keep bool) (res Result, slow bool) {
	n := 0
	for _, b := range cs.Steps[i].Files {
		n += len(b)
	}
	if keep {
		for k := 0; k < i; k++ {
			for _, b := range cs.Steps[k].Files {
				n += len(b)
			}
		}
	}
	res = c.RunStep(w, cs, i, preBudget(n), keep)
	if res.Status == "budget" {
		c.Stats.Inc("stage1_candidates")
		sig := "hang@" + res.HangAt
		c.Stats.mu.Lock()
		seen := c.Stats.Counters["stage2:"+sig]
		c.Stats.Counters["stage2:"+sig]++
		c.Stats.mu.Unlock()
		if seen >= 2 {
			// this loop home has already been decided twice at the full budget in this
			// batch; a third full-budget run would tell nothing new
			c.Stats.Inc("stage2_skipped_same_signature")
			res.Status = "timeout"
			return res, false
		}
		res = c.RunStep(w, cs, i, stage2Budget, true)
		c.Stats.Inc("stage2_runs")
		if res.Status == "exit" || res.Status == "panic" {
			c.Stats.Inc("slow_but_finished")
			return res, true
		}
	}
	return res, false
}

// ---- the plain build: fidelity gate and confirmations -------------------------------------

type RealResult struct {
	Stdout, Stderr []byte
	Exit           int
	WallMs         int64
	Killed         bool
}

// RealRun executes the plain (uninstrumented) build of the same tree in a real process.
func (c *Ctx) RealRun(node string, cfgID string, files map[string][]byte, argv []string, env map[string]string) RealResult {
	c.realMu.Lock()
	defer c.realMu.Unlock()
	dir := filepath.Join(c.Work, "real")
	os.RemoveAll(dir)
	os.MkdirAll(dir, 0755)
	if cfgID != "" {
		os.Symlink(c.World.CfgDir(cfgID), filepath.Join(dir, ".ti-config"))
	}
	for f, b := range files {
		p := filepath.Join(dir, f)
		os.MkdirAll(filepath.Dir(p), 0755)
		mode := os.FileMode(0644)
		if strings.HasPrefix(f, "bin/") {
			mode = 0755
		}
		os.WriteFile(p, b, mode)
	}
	cmd := exec.Command(c.RealBins[node], argv...)
	cmd.Dir = dir
	cmd.Env = os.Environ()
	for k, v := range env {
		cmd.Env = append(cmd.Env, k+"="+v)
	}
	var so, se bytes.Buffer
	cmd.Stdout, cmd.Stderr = &so, &se
	t0 := time.Now()
	if err := cmd.Start(); err != nil {
		infra("start real %s: %v", node, err)
	}
	done := make(chan error, 1)
	go func() { done <- cmd.Wait() }()
	rr := RealResult{}
	select {
	case err := <-done:
		if ee, ok := err.(*exec.ExitError); ok {
			rr.Exit = ee.ExitCode()
		} else if err != nil {
			rr.Exit = -1
		}
	case <-time.After(20 * time.Second):
		cmd.Process.Kill()
		<-done
		rr.Killed = true
		rr.Exit = -9
	}
	rr.WallMs = time.Since(t0).Milliseconds()
	rr.Stdout, rr.Stderr = so.Bytes(), se.Bytes()
	if len(rr.Stderr) > 1<<16 {
		rr.Stderr = rr.Stderr[:1<<16]
	}
	return rr
}

// stepFiles returns the disk content as of step i (all files written so far).
func stepFiles(cs *Case, i int) map[string][]byte {
	out := map[string][]byte{}
	for k := 0; k <= i; k++ {
		for f, b := range cs.Steps[k].Files {
			out[f] = b
		}
	}
	return out
}

// ---- known findings --------------------------------------------------------------------------

func loadKnown(path string) []Known {
	b, err := os.ReadFile(path)
	if err != nil {
		return nil
	}
	var out []Known
	for _, l := range strings.Split(string(b), "\n") {
		l = strings.TrimSpace(l)
		if l == "" || strings.HasPrefix(l, "#") {
			continue
		}
		if strings.HasPrefix(l, "fixed:") {
			// "fixed: property=<id> <commit> <what failed>": a repaired defect; suppresses nothing
			f := strings.Fields(l)
			if len(f) >= 3 {
				out = append(out, Known{Status: "fixed", Property: strings.TrimPrefix(f[1], "property="), Commit: f[2], What: strings.Join(f[3:], " ")})
			}
			continue
		}
		var k Known
		if err := json.Unmarshal([]byte(l), &k); err != nil {
			infra("known_findings.jsonl: %v", err)
		}
		out = append(out, k)
	}
	return out
}

func (c *Ctx) openKnown(sig string) *Known {
	for i := range c.Known {
		k := &c.Known[i]
		if k.Status == "open" && k.Property == c.Prop && k.InputClass == "" && k.Sig == sig {
			return k
		}
	}
	return nil
}

// inputClasses: named predicates over a scenario's target file, for findings that are
// identified by the input that fails.
var inputClasses = map[string]func(src []byte) bool{
	// a variable assigned, at least six times over the scenario's Ruby files (preloaded files
	// and target are evaluated one after the other on the same state), an expression that mentions the variable itself
	// twice (a = [a, a]; h = {x: h, y: h}; a = [a] + [a]): the inferred type doubles each time
	"self-wrapping-growth": func(src []byte) bool {
		count := map[string]int{}
		for _, l := range strings.FieldsFunc(string(src), func(r rune) bool { return r == '\n' || r == '\r' }) {
			l = strings.TrimSpace(l)
			i := strings.Index(l, " = ")
			if i <= 0 {
				continue
			}
			v, rhs := l[:i], l[i+3:]
			if strings.ContainsAny(v, " .[(") {
				continue
			}
			n := 0
			for _, tok := range strings.FieldsFunc(rhs, func(r rune) bool {
				return !(r == '_' || r >= 'a' && r <= 'z' || r >= 'A' && r <= 'Z' || r >= '0' && r <= '9' || r == '@')
			}) {
				if tok == v {
					n++
				}
			}
			if n >= 2 {
				count[v]++
			}
		}
		for _, n := range count {
			if n >= 6 {
				return true
			}
		}
		return false
	},
}

// knownFor finds the open finding that covers a candidate: by exact signature, or by
// signature prefix plus input class.
func (c *Ctx) knownFor(sig string, cs *Case) *Known {
	if k := c.openKnown(sig); k != nil {
		return k
	}
	for i := range c.Known {
		k := &c.Known[i]
		if k.Status != "open" || k.Property != c.Prop || k.InputClass == "" {
			continue
		}
		core := sig
		if j := strings.Index(core, "|"); j >= 0 && j < 12 {
			core = core[j+1:] // C04 signatures carry the query mode in front
		}
		if !strings.HasPrefix(core, k.Sig) {
			continue
		}
		pred := inputClasses[k.InputClass]
		if pred == nil {
			infra("known finding refers to unknown input class %q", k.InputClass)
		}
		for si := range cs.Steps {
			// the preloaded files and the target, as one text
			files := stepFiles(cs, si)
			names := make([]string, 0, len(files))
			for name := range files {
				if strings.HasSuffix(name, ".rb") {
					names = append(names, name)
				}
			}
			sort.Strings(names)
			var all []byte
			for _, name := range names {
				all = append(append(all, files[name]...), '\n')
			}
			if pred(all) {
				return k
			}
		}
	}
	return nil
}

// ---- generic exploration loop ---------------------------------------------------------------

type candidate struct {
	cs *Case
	f  *Finding
}

func caseSize(cs *Case) int {
	n := 0
	for _, s := range cs.Steps {
		n += 64
		for _, b := range s.Files {
			n += len(b)
		}
		if s.Sched != "canon" && s.Sched != "" {
			n += 4
			if s.Sched == "seeded" {
				n += 4
			}
			if len(s.Only) == 0 {
				n += 64
			}
		}
		n += len(s.Paylod)
	}
	for _, cfg := range cs.Configs {
		for _, b := range cfg {
			n += len(b) / 16
		}
		n += 32 * len(cfg)
	}
	return n
}

// Explore is the deciding loop: seeded search over cases, then minimise, confirm, report.
// It returns the number of violations reported (0 = property held on everything explored).
func Explore(c *Ctx, o Oracle) int {
	n := o.NCases(c.Tier)
	var mu sync.Mutex
	cands := map[string][]candidate{}
	// regression corpus first: the minimised scenarios of every violation these checks have
	// reported before (on the tree as given, later repaired, and on deliberately broken
	// variants). Each is a complete scenario (disk image, argv, schedule); it is judged like a
	// generated case, so a defect that comes back is reported with its current signature.
	if files, _ := filepath.Glob(filepath.Join(c.Verif, "regress", c.Prop+"-*.json")); len(files) > 0 {
		sort.Strings(files)
		c.Pool.ParallelFor(len(files), func(w *Worker, i int) {
			rf, err := loadReplay(files[i])
			if err != nil {
				infra("regression scenario %s: %v", files[i], err)
			}
			cs := &rf.Case
			cs.Index = -1 - i
			c.Stats.Inc("regression_scenarios_replayed")
			if f := o.Judge(c, w, cs); f != nil {
				if cs.Meta == nil {
					cs.Meta = map[string]string{}
				}
				cs.Meta["regression_scenario"] = filepath.Base(files[i])
				mu.Lock()
				cands[f.Sig] = append(cands[f.Sig], candidate{cs, f})
				mu.Unlock()
			}
		})
	}
	c.Pool.ParallelFor(n, func(w *Worker, i int) {
		cs := o.Make(c, i)
		if cs == nil {
			return
		}
		c.Stats.mu.Lock()
		c.Stats.Cases++
		c.Stats.mu.Unlock()
		for _, f := range cs.Faults {
			c.Stats.Fault(f)
		}
		if i%97 == 0 {
			c.Stats.Sample(o.Describe(cs), 6)
		}
		f := o.Judge(c, w, cs)
		if f != nil {
			mu.Lock()
			cands[f.Sig] = append(cands[f.Sig], candidate{cs, f})
			mu.Unlock()
		}
	})
	// a batch that was cut short by its wall-clock budget before a tenth of its cases ran has
	// not decided anything: say so (exit 2) instead of reporting a vacuous OK
	c.Stats.mu.Lock()
	ran := c.Stats.Cases
	c.Stats.mu.Unlock()
	floor := n / 10
	if c.Tier != "quick" {
		floor = n / 100 // thorough tiers are sized to fill their budget
	}
	if len(cands) == 0 && deadlinePassed() && ran < floor {
		infra("only %d of %d cases ran before the wall-clock budget was used up (overloaded machine or pathologically slow runs); nothing decided", ran, n)
	}
	return c.Report(o, cands)
}

// Report minimises, confirms and prints. Deterministic: signatures sorted, the smallest
// case (then lowest index) of each signature is the one minimised.
func (c *Ctx) Report(o Oracle, cands map[string][]candidate) int {
	sigs := make([]string, 0, len(cands))
	for s := range cands {
		sigs = append(sigs, s)
	}
	sort.Strings(sigs)
	violations := 0
	knownSeen := map[string]bool{}
	w := c.Pool.One()
	if os.Getenv("VERIF_SURVEY") != "" {
		// triage aid (not a check): list every signature with its smallest example
		for _, sig := range sigs {
			list := cands[sig]
			sort.Slice(list, func(a, b int) bool { return caseSize(list[a].cs) < caseSize(list[b].cs) })
			kn := ""
			if c.knownFor(sig, list[0].cs) != nil {
				kn = " [known]"
			}
			fmt.Printf("SURVEY %5d %s%s\n", len(list), sig, kn)
			last := list[0].cs.Steps[len(list[0].cs.Steps)-1]
			fmt.Printf("        argv=%v example=%q\n", last.Argv, shortStr(stepFiles(list[0].cs, len(list[0].cs.Steps)-1)[target], 200))
			c.writeReplay(list[0].cs, list[0].f, "survey", "survey")
		}
		return 0
	}
	for _, sig := range sigs {
		list := cands[sig]
		sort.Slice(list, func(a, b int) bool {
			sa, sb := caseSize(list[a].cs), caseSize(list[b].cs)
			if sa != sb {
				return sa < sb
			}
			return list[a].cs.Index < list[b].cs.Index
		})
		c.Stats.Add("candidates", len(list))
		c.Stats.Add("candidates:"+sig, len(list))
		// candidates that a listed finding identified by its input class covers are counted,
		// the others of the same signature go on
		var rest []candidate
		for _, cand := range list {
			if k := c.knownFor(sig, cand.cs); k != nil && k.InputClass != "" {
				knownSeen[k.InputClass+"|"+k.Sig] = true
				c.Stats.Inc("known_finding_hits")
				continue
			}
			rest = append(rest, cand)
		}
		list = rest
		if len(list) == 0 {
			continue
		}
		if k := c.openKnown(sig); k != nil {
			knownSeen[sig] = true
			c.Stats.Add("known_finding_hits", len(list))
			if os.Getenv("VERIF_WITNESS") != "" && k.Witness != "" {
				// maintenance aid: (re)create the committed witness of a listed finding
				cs, f := c.Minimise(o, w, list[0].cs, list[0].f)
				rf := ReplayFile{Property: c.Prop, Signature: f.Sig, What: f.What, VerifSeed: c.Seed, Tree: c.Tree, Confirm: "witness of a known finding", Case: *cs}
				b, _ := json.MarshalIndent(rf, "", " ")
				os.MkdirAll(filepath.Dir(filepath.Join(c.Verif, k.Witness)), 0755)
				os.WriteFile(filepath.Join(c.Verif, k.Witness), b, 0644)
				fmt.Printf("NOTE: wrote witness %s\n", k.Witness)
			}
			continue
		}
		if violations >= 8 {
			fmt.Printf("NOTE: further signature not minimised (report cap): %s (%d cases)\n", sig, len(list))
			continue
		}
		best := list[0]
		cs, f := c.Minimise(o, w, best.cs, best.f)
		ok, account := o.Confirm(c, cs, f)
		if !ok {
			// try the un-minimised original before giving up
			ok2, account2 := o.Confirm(c, best.cs, best.f)
			// ... and then the largest other cases with this signature: minimisation drives a
			// super-linear blow-up to the very edge of the budget, where the plain build (whose
			// cost per tick is at most the virtual clock's) still finishes in time; a bigger
			// instance of the same defect does not
			for k := len(list) - 1; !ok2 && k >= 1 && k >= len(list)-6; k-- {
				if ok3, account3 := o.Confirm(c, list[k].cs, list[k].f); ok3 {
					best, ok2, account2 = list[k], true, account3+" (largest case with this signature; the minimised one finishes just inside the real window)"
				}
			}
			if ok2 {
				cs, f, ok, account = best.cs, best.f, true, account2
			} else {
				c.Stats.Inc("unconfirmed_candidates")
				c.Stats.Inc("unconfirmed:" + sig)
				fmt.Printf("NOTE: candidate %s not confirmed (%s); not reported\n", sig, account)
				c.writeReplay(cs, f, "UNCONFIRMED: "+account, "unconfirmed")
				continue
			}
		}
		path := c.writeReplay(cs, f, account, "replay")
		violations++
		fmt.Printf("VIOLATION property=%s replay=%s\n", c.Prop, path)
		fmt.Printf("  signature: %s\n  what: %s\n  confirmation: %s\n  cases with this signature: %d\n", f.Sig, f.What, account, len(list))
	}
	// open known findings: replay each witness; print KNOWN-FINDING while it still fails
	for i := range c.Known {
		k := &c.Known[i]
		if k.Status != "open" || k.Property != c.Prop {
			continue
		}
		still := knownSeen[k.Sig]
		if k.InputClass != "" {
			still = knownSeen[k.InputClass+"|"+k.Sig]
		}
		if !still && k.Witness != "" {
			rf, err := loadReplay(filepath.Join(c.Verif, k.Witness))
			if err != nil {
				if os.Getenv("VERIF_WITNESS") != "" {
					continue
				}
				infra("known finding witness %s: %v", k.Witness, err)
			}
			if f := o.Judge(c, w, &rf.Case); f != nil && (f.Sig == k.Sig || (k.InputClass != "" && c.knownFor(f.Sig, &rf.Case) == k)) {
				still = true
			} else if f != nil {
				// the witness now fails differently: that is a different violation
				path := c.writeReplay(&rf.Case, f, "known-finding witness fails with a different signature", "replay")
				violations++
				fmt.Printf("VIOLATION property=%s replay=%s\n  signature: %s\n  what: %s\n", c.Prop, path, f.Sig, f.What)
			}
		}
		if still {
			fmt.Printf("KNOWN-FINDING: property=%s %s [%s]\n", c.Prop, k.What, k.Sig)
			c.Stats.Inc("known_findings_still_failing")
		} else {
			fmt.Printf("NOTE: known finding no longer reproduces: %s\n", k.Sig)
		}
	}
	return violations
}

// Minimise shrinks while the SAME signature persists (never on a run that merely passes).
func (c *Ctx) Minimise(o Oracle, w *Worker, cs *Case, f *Finding) (*Case, *Finding) {
	deadline := time.Now().Add(envDur("VERIF_SHRINK_BUDGET", 30*time.Second))
	steps := 0
	for improved := true; improved && time.Now().Before(deadline); {
		improved = false
		for _, cand := range o.Shrinks(c, cs) {
			if caseSize(cand) >= caseSize(cs) {
				continue
			}
			steps++
			if g := o.Judge(c, w, cand); g != nil && g.Sig == f.Sig {
				cs, f = cand, g
				improved = true
				break
			}
			if time.Now().After(deadline) {
				break
			}
		}
	}
	c.Stats.Add("shrink_steps", steps)
	return cs, f
}

func (c *Ctx) writeReplay(cs *Case, f *Finding, account, kind string) string {
	rf := ReplayFile{Property: c.Prop, Signature: f.Sig, What: f.What, VerifSeed: c.Seed, Tree: c.Tree, Confirm: account, Case: *cs}
	b, _ := json.MarshalIndent(rf, "", " ")
	h := sha256.Sum256([]byte(f.Sig))
	dir := filepath.Join(c.Verif, "replays")
	os.MkdirAll(dir, 0755)
	path := filepath.Join(dir, fmt.Sprintf("%s-%s-%s.json", c.Prop, kind, hex.EncodeToString(h[:])[:10]))
	if err := os.WriteFile(path, b, 0644); err != nil {
		infra("write replay: %v", err)
	}
	return path
}

func loadReplay(path string) (*ReplayFile, error) {
	b, err := os.ReadFile(path)
	if err != nil {
		return nil, err
	}
	var rf ReplayFile
	if err := json.Unmarshal(b, &rf); err != nil {
		return nil, err
	}
	return &rf, nil
}

// ---- generic shrinking helpers -------------------------------------------------------------------

func cloneCase(cs *Case) *Case {
	b, _ := json.Marshal(cs)
	var out Case
	json.Unmarshal(b, &out)
	return &out
}

// shrinkBytes proposes smaller variants of a file: drop line chunks, then token chunks, then bytes.
func shrinkBytes(src []byte) [][]byte {
	var out [][]byte
	lines := bytes.SplitAfter(src, []byte("\n"))
	if len(lines) > 1 {
		for chunk := len(lines) / 2; chunk >= 1; chunk /= 2 {
			for i := 0; i+chunk <= len(lines); i += chunk {
				var b []byte
				for k, l := range lines {
					if k < i || k >= i+chunk {
						b = append(b, l...)
					}
				}
				out = append(out, b)
			}
			if len(out) > 400 {
				break
			}
		}
	}
	toks := Scan(src)
	if len(toks) > 1 && len(toks) <= 400 {
		for chunk := len(toks) / 2; chunk >= 1; chunk /= 2 {
			for i := 0; i+chunk <= len(toks); i += chunk {
				out = append(out, Join(append(append([]Tok(nil), toks[:i]...), toks[i+chunk:]...)))
			}
		}
	}
	if len(src) <= 80 {
		for i := range src {
			out = append(out, append(append([]byte(nil), src[:i]...), src[i+1:]...))
		}
	}
	return out
}

func shortStr(b []byte, n int) string {
	s := string(b)
	if len(s) > n {
		s = s[:n] + fmt.Sprintf("...(+%d bytes)", len(b)-n)
	}
	return s
}
