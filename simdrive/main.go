// simdrive: the deterministic-simulation driver for the ruby-ti properties.
//
//	simdrive -prop C01 -tier quick -repo /repo -verif /verif -work <scratch> [-replay file]
//
// The scratch directory must already hold the instrumented and plain builds made by ./run.
package main

import (
	"bytes"
	"encoding/json"
	"flag"
	"fmt"
	"os"
	"path/filepath"
	"runtime"
	"sort"
	"strconv"
	"strings"
	"time"
)

var oracles = map[string]func() Oracle{}

var levels = map[string]string{
	"C01": "exploration", "C02": "exploration", "C03": "fault_enumeration", "C04": "exploration",
	"C05": "exploration", "C19": "exploration", "C25": "exploration", "C26": "exploration",
}

func main() {
	prop := flag.String("prop", "", "property id")
	tier := flag.String("tier", "quick", "quick | thorough")
	repo := flag.String("repo", "/repo", "repository")
	verif := flag.String("verif", "/verif", "verification directory")
	work := flag.String("work", "", "scratch directory prepared by ./run")
	replay := flag.String("replay", "", "replay file")
	selftest := flag.String("selftest", "", "determinism")
	nworkers := flag.Int("workers", 0, "worker count (default: cores)")
	flag.Parse()

	seed := uint64(1)
	if s := os.Getenv("VERIF_SEED"); s != "" {
		v, err := strconv.ParseUint(s, 10, 64)
		if err != nil {
			if iv, err2 := strconv.ParseInt(s, 10, 64); err2 == nil {
				v = uint64(iv)
			} else {
				infra("VERIF_SEED=%q is not an integer", s)
			}
		}
		seed = v
	}
	if t := os.Getenv("VERIF_TIER"); t != "" && *tier == "" {
		*tier = t
	}
	if *work == "" {
		infra("-work is required")
	}
	nw := *nworkers
	if nw <= 0 {
		nw = runtime.NumCPU()
		if v, err := strconv.Atoi(os.Getenv("VERIF_WORKERS")); err == nil && v > 0 {
			nw = v
		}
	}

	c := &Ctx{Prop: *prop, Tier: *tier, Seed: seed, Repo: *repo, Verif: *verif, Work: *work, Stats: NewStats(), start: time.Now(), cfgCache: map[string]string{}}
	c.Tree = os.Getenv("VERIF_TREE")
	c.World = NewWorld(filepath.Join(*work, "world"))
	bins := map[string]string{}
	c.RealBins = map[string]string{}
	for _, n := range []string{"ti", "rbs2json", "c2json", "lexsim", "simlab"} {
		bins[n] = filepath.Join(*work, n+"-sim")
		c.RealBins[n] = filepath.Join(*work, n+"-real")
	}
	c.Pool = NewPool(c.World, bins, nw)
	defer c.Pool.Close()
	c.loadInputs()
	c.Known = loadKnown(filepath.Join(*verif, "known_findings.jsonl"))

	fmt.Printf("VERIF_SEED=%d property=%s tier=%s workers=%d tree=%s\n", seed, *prop, *tier, nw, c.Tree)

	if *selftest != "" {
		os.Exit(selfTestDeterminism(c))
	}
	if *replay != "" {
		os.Exit(doReplay(c, *replay))
	}
	mk, ok := oracles[*prop]
	if !ok {
		infra("no oracle for property %q", *prop)
	}
	o := mk()
	o.Init(c)
	switch *tier {
	case "quick":
		batchDeadline = time.Now().Add(envDur("VERIF_QUICK_BUDGET", 150*time.Second))
	default:
		batchDeadline = time.Now().Add(envDur("VERIF_THOROUGH_BUDGET", 40*time.Minute))
	}
	gate := fidelityGate(c)
	violations := Explore(c, o)
	c.Pool.Close()
	writeEvidence(c, o, gate, violations)
	if violations > 0 {
		os.Exit(1)
	}
	fmt.Printf("OK property=%s cases=%d runs=%d distinct=%d wall=%.1fs\n", c.Prop, c.Stats.Cases, c.Pool.Runs.Load(), len(c.Stats.Distinct), time.Since(c.start).Seconds())
}

func envDur(k string, d time.Duration) time.Duration {
	if v := os.Getenv(k); v != "" {
		if x, err := time.ParseDuration(v); err == nil {
			return x
		}
	}
	return d
}

// loadInputs reads the corpus and the shipped configurations from the repository.
func (c *Ctx) loadInputs() {
	testDir := filepath.Join(c.Repo, "test")
	ents, err := os.ReadDir(testDir)
	if err != nil {
		infra("corpus: %v", err)
	}
	for _, e := range ents {
		if strings.HasSuffix(e.Name(), ".rb") {
			b, err := os.ReadFile(filepath.Join(testDir, e.Name()))
			if err == nil && len(b) <= 16<<10 {
				c.Corpus = append(c.Corpus, Prog{e.Name(), b})
			}
		}
	}
	for _, extra := range []string{"example"} {
		ents, _ := os.ReadDir(filepath.Join(c.Repo, extra))
		for _, e := range ents {
			if strings.HasSuffix(e.Name(), ".rb") {
				if b, err := os.ReadFile(filepath.Join(c.Repo, extra, e.Name())); err == nil && len(b) <= 16<<10 {
					c.Corpus = append(c.Corpus, Prog{extra + "_" + e.Name(), b})
				}
			}
		}
	}
	sort.Slice(c.Corpus, func(a, b int) bool { return c.Corpus[a].Name < c.Corpus[b].Name })
	if len(c.Corpus) < 50 {
		infra("corpus too small (%d programs)", len(c.Corpus))
	}
	var srcs [][]byte
	for _, p := range c.Corpus {
		srcs = append(srcs, p.Src)
	}
	c.Vocab = Vocabulary(srcs)
	c.ShippedCfg = readDirFiles(filepath.Join(testDir, ".ti-config"))
	c.CfgShipped = c.World.AddConfig(c.ShippedCfg)
	c.CfgRoot = c.World.AddConfig(readDirFiles(filepath.Join(c.Repo, ".ti-config")))
	c.Builtins = builtinsOf(c.ShippedCfg)
	// map-order sites of the instrumented build
	c.Sites = map[int]SiteRec{}
	if b, err := os.ReadFile(filepath.Join(c.Work, "src", "sim_sites.json")); err == nil {
		var ss struct {
			Sites []SiteRec `json:"sites"`
		}
		json.Unmarshal(b, &ss)
		for _, s := range ss.Sites {
			c.Sites[s.ID] = s
		}
	}
}

// builtinsOf extracts (class, method, arity range) from a configuration, for the generator.
func builtinsOf(cfg map[string][]byte) []BuiltinMethod {
	type arg struct {
		Type       any    `json:"type"`
		Key        string `json:"key"`
		IsAsterisk bool   `json:"is_asterisk"`
		IsDefault  bool   `json:"is_default"`
	}
	type meth struct {
		Name   string   `json:"name"`
		Args   []arg    `json:"arguments"`
		Blocks []string `json:"block_parameters"`
	}
	type cls struct {
		Class string `json:"class"`
		IM    []meth `json:"instance_methods"`
		CM    []meth `json:"class_methods"`
	}
	names := make([]string, 0, len(cfg))
	for n := range cfg {
		names = append(names, n)
	}
	sort.Strings(names)
	var out []BuiltinMethod
	for _, n := range names {
		var cd cls
		if json.Unmarshal(cfg[n], &cd) != nil {
			continue
		}
		add := func(ms []meth, static bool) {
			for _, m := range ms {
				bm := BuiltinMethod{Class: cd.Class, Name: m.Name, Static: static, HasBlock: len(m.Blocks) > 0}
				for _, a := range m.Args {
					if a.Key != "" {
						continue
					}
					if a.IsAsterisk {
						bm.MaxArgs += 3
						continue
					}
					opt := a.IsDefault
					if s, ok := a.Type.(string); ok && strings.HasPrefix(s, "?") {
						opt = true
					}
					if l, ok := a.Type.([]any); ok && len(l) == 1 {
						if s, ok := l[0].(string); ok && (strings.HasPrefix(s, "Default") || strings.HasPrefix(s, "Optional") || strings.HasPrefix(s, "?")) {
							opt = true
						}
					}
					bm.MaxArgs++
					if !opt {
						bm.MinArgs++
					}
				}
				if len(m.Name) == 0 || !(m.Name[0] == '_' || (m.Name[0] >= 'a' && m.Name[0] <= 'z')) {
					continue
				}
				out = append(out, bm)
			}
		}
		add(cd.IM, false)
		add(cd.CM, true)
	}
	return out
}

// ---- fidelity gate: does the simulated node behave like the plain build? ---------------------

type gateResult struct {
	Compared int
	Skipped  int
}

func fidelityGate(c *Ctx) gateResult {
	if c.Prop == "C03" || c.Prop == "C25" || c.Prop == "C26" {
		return gateNode(c)
	}
	r := Stream(c.Seed, c.Prop, 0, "gate")
	w := c.Pool.One()
	var g gateResult
	for k := 0; k < 40; k++ {
		p := c.Corpus[r.Intn(len(c.Corpus))]
		argv := []string{"main.rb"}
		if k%4 == 1 {
			argv = append(argv, "-i")
		}
		files := map[string][]byte{"main.rb": p.Src}
		a := w.Exec(&Job{Node: "ti", Cfg: c.CfgShipped, Files: files, Argv: argv, Seed: 1, Sched: "canon", Budget: stage2Budget, NsTick: nsPerTick})
		b := w.Exec(&Job{Node: "ti", Cfg: c.CfgShipped, Files: files, Argv: argv, Seed: r.U64(), Sched: "seeded", Budget: stage2Budget, NsTick: nsPerTick})
		if a.Status != "exit" || !bytes.Equal(a.Stdout, b.Stdout) || a.Exit != b.Exit {
			g.Skipped++ // schedule-dependent or abnormal: not a fault-free reference scenario
			continue
		}
		rr := c.RealRun("ti", c.CfgShipped, files, argv, nil)
		if rr.Exit == 1 && bytes.Equal(bytes.TrimSpace(rr.Stdout), []byte("timeout")) {
			g.Skipped++ // the machine was too loaded for the real 500 ms timer
			continue
		}
		if !bytes.Equal(rr.Stdout, a.Stdout) || rr.Exit != a.Exit {
			infra("fidelity gate: simulated node and plain build disagree on %s %v:\n sim exit=%d %q\n real exit=%d %q", p.Name, argv, a.Exit, shortStr(a.Stdout, 300), rr.Exit, shortStr(rr.Stdout, 300))
		}
		g.Compared++
	}
	if g.Compared < 10 {
		infra("fidelity gate compared only %d scenarios", g.Compared)
	}
	return g
}

// ---- evidence -----------------------------------------------------------------------------------

func writeEvidence(c *Ctx, o Oracle, g gateResult, violations int) {
	s := c.Stats
	wall := time.Since(c.start).Seconds()
	faults := map[string]int{}
	for k, v := range s.Faults {
		faults[k] = v
	}
	zero := []string{}
	if ex, ok := o.(interface{ ExpectedFaults() []string }); ok {
		for _, k := range ex.ExpectedFaults() {
			if faults[k] == 0 {
				zero = append(zero, k)
			}
		}
	}
	counters := map[string]int{}
	for k, v := range s.Counters {
		counters[k] = v
	}
	siteOrders := map[string]int{}
	for id, m := range s.SiteOrder {
		name := fmt.Sprint(id)
		if sr, ok := c.Sites[id]; ok {
			name = fmt.Sprintf("%d %s %s", id, sr.Pos, sr.Func)
		}
		siteOrders[name] = len(m)
	}
	rule := "see DESIGN.md"
	if d, ok := o.(interface{ Rule() string }); ok {
		rule = d.Rule()
	}
	runs := c.Pool.Runs.Load()
	ticks := c.Pool.Ticks.Load()
	cov := map[string]any{
		"evaluations":                   int(runs),
		"cases":                         s.Cases,
		"distinct_nontrivial":           len(s.Distinct),
		"rule":                          rule,
		"samples":                       s.Samples,
		"traces_validated_against_impl": g.Compared,
		"fidelity_gate_skipped":         g.Skipped,
		"simulated_runs":                runs,
		"simulated_runs_per_hour":       int(float64(runs) / wall * 3600),
		"seeds":                         1,
		"simulated_ticks":               ticks,
		"simulated_time_s":              float64(ticks) * nsPerTick / 1e9,
		"faults_fired":                  faults,
		"fault_probes_at_zero":          zero,
		"counters":                      counters,
		"distinct_orders_per_map_site":  siteOrders,
		"worker_respawns":               c.Pool.Respawns.Load(),
		"goroutine_schedule_decisions":  c.Pool.Sched.Load(),
		"map_order_decisions":           c.Pool.MapDec.Load(),
		"real_vs_stub": map[string]string{
			"real":      "all ruby-ti Go code (every package, rebuilt from the working tree), kernel tmpfs as the disk, the file system calls themselves",
			"simulated": "wall clock and the 500 ms watchdog timer (tick-driven virtual clock with a discrete-event jump when every goroutine is blocked), which goroutine runs next (baton scheduler: creation, channel operations, select, WaitGroup/Mutex/Once, seeded preemption quanta), the order in which select polls its cases, Go map iteration order, the process-wide math/rand generators, wall-clock start and speed, process exit, goroutine panics, file content/fault state, editor and LSP clients",
			"stub":      "the `ruby` child process of ti-rbs2json (stand-in printing the scenario's AST JSON)",
		},
		"exhaustive": false,
	}
	if ex, ok := o.(interface{ Extra(map[string]any) }); ok {
		ex.Extra(cov)
	}
	ev := map[string]any{
		"property_id": c.Prop,
		"tier":        c.Tier,
		"seed":        int64(c.Seed & 0x7fffffffffffffff),
		"level":       levels[c.Prop],
		"coverage":    cov,
		"assumptions": []string{
			"virtual clock: 1 tick = 40 ns (fastest rate measured for the plain build on this machine); every hang candidate is re-decided by the plain build against the real 500 ms timer before it is reported",
			"map-order model: rotations of slot order for maps of <= 8 entries, arbitrary permutations above (Go 1.24-1.26 swiss maps)",
			"instrumentation preserves behaviour: checked on every run by the fidelity gate against the plain build of the same tree",
		},
		"wall_s":     wall,
		"violations": violations,
		"tree":       c.Tree,
	}
	b, _ := json.MarshalIndent(ev, "", " ")
	dir := filepath.Join(c.Verif, "evidence")
	os.MkdirAll(dir, 0755)
	if err := os.WriteFile(filepath.Join(dir, c.Prop+".json"), b, 0644); err != nil {
		infra("write evidence: %v", err)
	}
}

// ---- replay ----------------------------------------------------------------------------------------

func doReplay(c *Ctx, path string) int {
	rf, err := loadReplay(path)
	if err != nil {
		infra("replay file: %v", err)
	}
	c.Prop = rf.Property
	mk, ok := oracles[rf.Property]
	if !ok {
		infra("no oracle for %q", rf.Property)
	}
	o := mk()
	f := o.Judge(c, c.Pool.One(), &rf.Case)
	if f == nil {
		fmt.Printf("REPLAY property=%s: no violation (expected %s)\n", rf.Property, rf.Signature)
		return 0
	}
	ok2, account := o.Confirm(c, &rf.Case, f)
	fmt.Printf("signature: %s\nwhat: %s\nconfirmation: %v %s\n", f.Sig, f.What, ok2, account)
	if f.Sig != rf.Signature {
		fmt.Printf("NOTE: signature differs from the recorded one (%s)\n", rf.Signature)
	}
	fmt.Printf("VIOLATION property=%s replay=%s\n", rf.Property, path)
	return 1
}
