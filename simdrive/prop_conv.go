package main

import (
	"bytes"
	"encoding/json"
	"fmt"
	"os"
	"path/filepath"
	"sort"
	"strings"
)

// converter-pipeline engine: C25 (rbs2json) and C26 (c2json).
// converter node (real code, instrumented) -> disk -> ti node booted on the output.

func init() {
	oracles["C25"] = func() Oracle { return &convPipe{prop: "C25"} }
	oracles["C26"] = func() Oracle { return &convPipe{prop: "C26"} }
	nodeGates["C25"] = func(c *Ctx) gateResult { return convGate(c, "C25") }
	nodeGates["C26"] = func(c *Ctx) gateResult { return convGate(c, "C26") }
}

type convPipe struct {
	prop string
	n, k int
}

func (o *convPipe) Init(c *Ctx) {
	if c.Tier == "quick" {
		o.n, o.k = 1500, 4
	} else {
		o.n, o.k = 40000, 8
	}
}
func (o *convPipe) NCases(string) int { return o.n }
func (o *convPipe) Rule() string {
	if o.prop == "C25" {
		return "a case is one generated RBS AST document (classes, modules, nesting, superclasses, includes, overloads, aliases, attrs, ivars, constants, signatures with 0-4 required/optional/rest/trailing positionals and 0-4 required / 0-4 optional keywords) fed through a stub `ruby`, converted under K map-order schedules in stdout / -o file / -o dir/ mode, then loaded by a ti node that runs arity probes; non-trivial = the converter reached a map-range site with >= 2 keys or the document has a keyword-bearing signature; distinct = distinct event-log hashes of converter runs"
	}
	return "a case is one generated C source (mrb_define_method / _class_method / _method_id / mrbc_define_method with MRB_ARGS_NONE/ANY/REQ/OPT/REST/POST/BLOCK combinations, mrb_get_args formats over i f s z S A a H b n C o | * & ! ?, GET_*_ARG with argc guards) converted under K map-order schedules, then loaded by a ti node that calls every class method with 0..6 positional arguments; distinct = distinct (define style, args spec shape, body style) cells"
}
func (o *convPipe) ExpectedFaults() []string {
	return []string{"sched-canon", "sched-rev", "sched-seeded"}
}

// ---- RBS AST generator -----------------------------------------------------------------------

type rbsSig struct {
	Req, Opt, Trail int
	Rest            bool
	ReqKw, OptKw    []string
	Untyped         bool
	RetUntyped      bool // the method's return type converts to Untyped
}

// traits names the features of a signature that decide which arity code path ti takes;
// it makes arity findings specific (a known finding about one shape does not hide another).
func (s rbsSig) traits() string {
	var t []string
	if s.Opt > 0 {
		t = append(t, "opt")
	}
	if s.Rest {
		t = append(t, "rest")
	}
	if s.Trail > 0 {
		t = append(t, "trail")
	}
	if len(s.ReqKw) > 0 {
		t = append(t, "reqkw")
	}
	if len(s.OptKw) > 0 {
		t = append(t, "optkw")
	}
	if s.RetUntyped {
		t = append(t, "ret-untyped")
	}
	if len(t) == 0 {
		return "plain"
	}
	return strings.Join(t, "+")
}

// decisive keeps, for a failing probe, the traits that select ti's arity code path:
// trailing positionals (required parameters after optional ones or after the rest
// parameter) dominate everything else, and an untyped return value matters only for the
// too-many-arguments check.
func decisive(rel, traits string) string {
	has := func(x string) bool { return strings.Contains("+"+traits+"+", "+"+x+"+") }
	switch {
	case has("trail") || has("post"):
		// required positionals after optional ones or after the rest parameter
		return "trailing-positional"
	case has("rest") && has("reqkw"):
		return rel + ":rest+reqkw"
	case rel == "above-max" && has("ret-untyped"):
		return rel + ":ret-untyped"
	}
	return rel + ":" + strings.ReplaceAll(traits, "+ret-untyped", "")
}

type rbsMethodModel struct {
	Class     string
	Name      string
	Singleton bool
	Sigs      []rbsSig
	TParam    string // typed probe method: core type of its single parameter ...
	TRet      string // ... and of its return value
}

// coreTypes: RBS core types with a literal of that type, a literal of another type, and the
// name ti prints for the type. The mapping is checked end to end (what ti accepts, rejects
// and infers), not against the converter's own table.
var coreTypes = map[string]struct {
	rbs              map[string]any
	good, bad, shown string
}{
	"Integer": {map[string]any{"class": "class_instance", "name": "::Integer", "args": []any{}}, "1", "\"s\"", "Integer"},
	"String":  {map[string]any{"class": "class_instance", "name": "::String", "args": []any{}}, "\"s\"", "1", "String"},
	"Float":   {map[string]any{"class": "class_instance", "name": "::Float", "args": []any{}}, "1.5", "\"s\"", "Float"},
	"Symbol":  {map[string]any{"class": "class_instance", "name": "::Symbol", "args": []any{}}, ":s", "1", "Symbol"},
	"bool":    {map[string]any{"class": "bool"}, "true", "\"s\"", "Bool"},
	"nil":     {map[string]any{"class": "nil"}, "nil", "1", "NilClass"},
}

var coreTypeNames = []string{"Integer", "String", "Float", "Symbol", "bool", "nil"}

func rbsType(r *Rng, untyped bool) map[string]any {
	if untyped {
		return map[string]any{"class": "untyped"}
	}
	switch r.Intn(12) {
	case 0:
		return map[string]any{"class": "class_instance", "name": "::Integer", "args": []any{}}
	case 1:
		return map[string]any{"class": "class_instance", "name": "::String", "args": []any{}}
	case 2:
		return map[string]any{"class": "bool"}
	case 3:
		return map[string]any{"class": "optional", "type": rbsType(r, false)}
	case 4:
		return map[string]any{"class": "union", "types": []any{rbsType(r, false), rbsType(r, false)}}
	case 5:
		return map[string]any{"class": "literal", "literal": r.Pick([]string{":sym", "1", "\"s\"", "true", "1.5"})}
	case 6:
		return map[string]any{"class": "alias", "name": r.Pick([]string{"int", "string", "real", "interned", "my_alias", "boolish"})}
	case 7:
		return map[string]any{"class": "class_instance", "name": "::Array", "args": []any{rbsType(r, false)}}
	case 8:
		return map[string]any{"class": "class_instance", "name": "::Hash", "args": []any{}}
	case 9:
		return map[string]any{"class": r.Pick([]string{"nil", "void", "self", "instance", "variable", "tuple"})}
	case 10:
		return map[string]any{"class": "class_instance", "name": "::Float", "args": []any{}}
	}
	return map[string]any{"class": "untyped"}
}

var kwNames = []string{"alpha", "beta", "gamma", "delta", "eps", "zeta", "eta", "theta", "iota", "kappa"}

func rbsFunc(r *Rng, sig rbsSig) map[string]any {
	params := func(n int) []any {
		out := []any{}
		for i := 0; i < n; i++ {
			out = append(out, map[string]any{"name": fmt.Sprintf("p%d", i), "type": rbsType(r, sig.Untyped)})
		}
		return out
	}
	kws := func(names []string) map[string]any {
		out := map[string]any{}
		for _, n := range names {
			out[n] = map[string]any{"name": n, "type": rbsType(r, sig.Untyped)}
		}
		return out
	}
	var rest any
	if sig.Rest {
		rest = map[string]any{"name": "rest", "type": rbsType(r, sig.Untyped)}
	}
	return map[string]any{
		"required_positionals": params(sig.Req), "optional_positionals": params(sig.Opt),
		"rest_positionals": rest, "trailing_positionals": params(sig.Trail),
		"required_keywords": kws(sig.ReqKw), "optional_keywords": kws(sig.OptKw), "rest_keywords": nil,
		"return_type": retType(r, sig),
	}
}

func retType(r *Rng, sig rbsSig) map[string]any {
	if !sig.Untyped {
		return rbsType(r, false)
	}
	if sig.RetUntyped {
		return map[string]any{"class": "untyped"}
	}
	return map[string]any{"class": "class_instance", "name": "::Integer", "args": []any{}}
}

func genSig(r *Rng, untyped bool) rbsSig {
	s := rbsSig{Req: r.Intn(4), Opt: r.Intn(3), Untyped: untyped, RetUntyped: untyped && r.Chance(1, 4)}
	if r.Chance(1, 4) {
		s.Rest = true
	}
	// RBS lists required positionals that follow optional ones (or the rest parameter) as
	// trailing positionals: (?Integer, String) has one, with or without a rest parameter
	if (s.Rest || s.Opt > 0) && r.Chance(1, 2) {
		s.Trail = r.Range(1, 2)
	}
	if r.Chance(1, 2) {
		perm := append([]string(nil), kwNames...)
		for i := len(perm) - 1; i > 0; i-- {
			j := r.Intn(i + 1)
			perm[i], perm[j] = perm[j], perm[i]
		}
		nr, no := r.Intn(5), r.Intn(5)
		s.ReqKw, s.OptKw = perm[:nr], perm[nr:nr+no]
	}
	return s
}

func genRBS(r *Rng) ([]byte, []rbsMethodModel) {
	var models []rbsMethodModel
	var decls []any
	if r.Chance(1, 3) {
		decls = append(decls, map[string]any{"declaration": "alias", "name": "my_alias", "type": map[string]any{"class": "union", "types": []any{
			map[string]any{"class": "class_instance", "name": "::Integer", "args": []any{}}, map[string]any{"class": "class_instance", "name": "::String", "args": []any{}}}}})
	}
	classNames := []string{"Widget", "Gizmo", "Sprocket", "Doohickey"}
	var mkClass func(name, full string, depth int) map[string]any
	mkClass = func(name, full string, depth int) map[string]any {
		kind := "class"
		if r.Chance(1, 4) {
			kind = "module"
		}
		d := map[string]any{"declaration": kind, "name": name, "type_params": []any{}, "super_class": nil, "comment": nil}
		if kind == "class" && r.Chance(1, 4) {
			d["super_class"] = map[string]any{"name": "::" + r.Pick(classNames), "args": []any{}}
		}
		members := []any{}
		// a no-argument initializer so that <Class>.new exists for the arity probes
		if kind == "class" {
			initFunc := rbsFunc(r, rbsSig{Untyped: true})
			initFunc["return_type"] = map[string]any{"class": "void"}
			members = append(members, map[string]any{"member": "method_definition", "name": "initialize", "kind": "instance", "visibility": "public", "comment": nil,
				"overloads": []any{map[string]any{"method_type": map[string]any{"type_params": []any{}, "block": nil, "type": initFunc}}}})
		}
		nm := r.Range(1, 5)
		var names []string
		for m := 0; m < nm; m++ {
			// method names are unique per class: inheritance between generated classes must
			// not blur which signature a probe call is checked against
			mname := fmt.Sprintf("%s_%s%d", r.Pick([]string{"run", "calc", "fetch", "put"}), strings.ToLower(name[:3]), m)
			untyped := r.Chance(2, 3)
			model := rbsMethodModel{Class: full, Name: mname, Singleton: r.Chance(1, 2) || kind == "module"}
			nover := 1
			if r.Chance(1, 4) {
				nover = 2
			}
			var overloads []any
			for v := 0; v < nover; v++ {
				sig := genSig(r, untyped)
				model.Sigs = append(model.Sigs, sig)
				var block any
				if r.Chance(1, 5) {
					block = map[string]any{"required": r.Chance(1, 2), "type": rbsFunc(r, rbsSig{Req: r.Intn(3)})}
				}
				overloads = append(overloads, map[string]any{"method_type": map[string]any{"type_params": []any{}, "block": block, "type": rbsFunc(r, sig)}})
			}
			mk := "instance"
			if model.Singleton {
				mk = "singleton"
			}
			var comment any
			if r.Chance(1, 4) {
				comment = map[string]any{"string": "<!-- rdoc-file=x -->\nDoes " + mname + ".\n"}
			}
			// aliases of this method: some written before their target (forward), some after
			nalias := 0
			if r.Chance(1, 3) {
				nalias = r.Range(1, 3)
			}
			var after []any
			for a := 0; a < nalias; a++ {
				al := map[string]any{"member": "alias", "new_name": fmt.Sprintf("%s_alias%d", mname, a), "old_name": mname, "kind": mk}
				if r.Chance(1, 2) {
					members = append(members, al)
				} else {
					after = append(after, al)
				}
			}
			vis := r.Pick([]string{"public", "public", "public", "private"})
			twin := kind == "class" && r.Chance(1, 5)
			if twin {
				vis = "public"
			}
			members = append(members, map[string]any{"member": "method_definition", "name": mname, "kind": mk,
				"visibility": vis, "comment": comment, "overloads": overloads})
			members = append(members, after...)
			models = append(models, model)
			if twin {
				// the same name once more as the other kind of method (def self.x next to def x),
				// sharing its first overload: two declarations that differ only in their kind
				tm := rbsMethodModel{Class: full, Name: mname, Singleton: !model.Singleton, Sigs: []rbsSig{model.Sigs[0]}}
				tover := []any{overloads[0]}
				if r.Chance(1, 2) {
					sig := genSig(r, untyped)
					tm.Sigs = append(tm.Sigs, sig)
					tover = append(tover, map[string]any{"method_type": map[string]any{"type_params": []any{}, "block": nil, "type": rbsFunc(r, sig)}})
				}
				tk := "singleton"
				if !tm.Singleton {
					tk = "instance"
				}
				members = append(members, map[string]any{"member": "method_definition", "name": mname, "kind": tk,
					"visibility": "public", "comment": nil, "overloads": tover})
				models = append(models, tm)
			}
			names = append(names, mname)
		}
		if depth == 0 && r.Chance(1, 2) {
			// a typed probe method: one required parameter and a return value of core types
			pt, rt := coreTypeNames[r.Intn(len(coreTypeNames)-1)], coreTypeNames[r.Intn(len(coreTypeNames))]
			tname := "typed_" + strings.ToLower(name[:3])
			ft := rbsFunc(r, rbsSig{Untyped: true})
			ft["required_positionals"] = []any{map[string]any{"name": "x", "type": coreTypes[pt].rbs}}
			ft["return_type"] = coreTypes[rt].rbs
			members = append(members, map[string]any{"member": "method_definition", "name": tname, "kind": "singleton", "visibility": "public", "comment": nil,
				"overloads": []any{map[string]any{"method_type": map[string]any{"type_params": []any{}, "block": nil, "type": ft}}}})
			models = append(models, rbsMethodModel{Class: full, Name: tname, Singleton: true, TParam: pt, TRet: rt})
		}
		if r.Chance(1, 3) {
			// a class-local type alias (the same alias name means another type in another
			// class, and may shadow a top-level alias of that name) and a typed probe whose
			// parameter is declared through it
			at := coreTypeNames[r.Intn(len(coreTypeNames)-1)]
			rt := coreTypeNames[r.Intn(len(coreTypeNames))]
			aname := "al_" + strings.ToLower(name[:3])
			ft := rbsFunc(r, rbsSig{Untyped: true})
			ft["required_positionals"] = []any{map[string]any{"name": "x", "type": map[string]any{"class": "alias", "name": "ident"}}}
			ft["return_type"] = coreTypes[rt].rbs
			probe := map[string]any{"member": "method_definition", "name": aname, "kind": "singleton", "visibility": "public", "comment": nil,
				"overloads": []any{map[string]any{"method_type": map[string]any{"type_params": []any{}, "block": nil, "type": ft}}}}
			decl := map[string]any{"declaration": "alias", "name": "ident", "type": coreTypes[at].rbs}
			if r.Chance(1, 2) {
				members = append(members, decl, probe)
			} else {
				members = append(members, probe, decl) // used before it is declared
			}
			models = append(models, rbsMethodModel{Class: full, Name: aname, Singleton: true, TParam: at, TRet: rt})
		}
		hasNested := false
		for x := 0; x < r.Intn(3); x++ {
			switch r.Intn(5) {
			case 0:
				members = append(members, map[string]any{"member": r.Pick([]string{"attr_reader", "attr_accessor"}), "name": r.Pick(kwNames), "type": rbsType(r, false), "ivar_name": nil})
			case 1:
				members = append(members, map[string]any{"member": "instance_variable", "name": "@" + r.Pick(kwNames), "type": rbsType(r, false)})
			case 2:
				members = append(members, map[string]any{"declaration": "constant", "name": "LIMIT", "type": rbsType(r, false)})
			case 3:
				members = append(members, map[string]any{"member": "include", "name": "::" + r.Pick([]string{"Comparable", "Enumerable"})})
			case 4:
				if depth < 1 && !hasNested {
					hasNested = true
					nn := r.Pick([]string{"Inner", "Part"})
					members = append(members, mkClass(nn, full+"::"+nn, depth+1))
				} else {
					members = append(members, map[string]any{"declaration": "alias", "name": "local_alias", "type": map[string]any{"class": "bool"}})
				}
			}
		}
		d["members"] = members
		return d
	}
	if r.Chance(1, 4) {
		// a top-level alias that class-local aliases of the same name shadow
		decls = append(decls, map[string]any{"declaration": "alias", "name": "ident", "type": coreTypes[coreTypeNames[r.Intn(len(coreTypeNames)-1)]].rbs})
	}
	n := r.Range(1, 3)
	used := map[string]bool{}
	for i := 0; i < n; i++ {
		cn := r.Pick(classNames)
		if used[cn] {
			continue
		}
		used[cn] = true
		if r.Chance(1, 5) {
			// the class is opened a first time with a few declarations that the probes do not
			// depend on (an include, a constant, an attribute) and declared in full later on
			var pre []any
			for _, inc := range []string{"Comparable", "Enumerable", "Kernel"}[:r.Range(1, 3)] {
				pre = append(pre, map[string]any{"member": "include", "name": "::" + inc})
			}
			if r.Chance(1, 2) {
				pre = append(pre, map[string]any{"declaration": "constant", "name": "EARLY", "type": rbsType(r, false)})
			}
			if r.Chance(1, 2) {
				pre = append(pre, map[string]any{"member": "attr_reader", "name": "early", "type": rbsType(r, false), "ivar_name": nil})
			}
			full := mkClass(cn, cn, 0)
			first := map[string]any{"declaration": full["declaration"], "name": cn, "type_params": []any{}, "comment": nil, "members": pre}
			if full["declaration"] == "class" {
				first["super_class"] = nil
			}
			decls = append(decls, first, full)
			continue
		}
		decls = append(decls, mkClass(cn, cn, 0))
	}
	if r.Chance(1, 5) {
		// a parent and a child that both declare a method of one name, with the same keyword
		// names but other optionality / arity: each class answers with its own declaration
		mkDev := func(name string, super any, sig rbsSig) map[string]any {
			initFunc := rbsFunc(r, rbsSig{Untyped: true})
			initFunc["return_type"] = map[string]any{"class": "void"}
			return map[string]any{"declaration": "class", "name": name, "type_params": []any{}, "super_class": super, "comment": nil, "members": []any{
				map[string]any{"member": "method_definition", "name": "initialize", "kind": "instance", "visibility": "public", "comment": nil,
					"overloads": []any{map[string]any{"method_type": map[string]any{"type_params": []any{}, "block": nil, "type": initFunc}}}},
				map[string]any{"member": "method_definition", "name": "open_dev", "kind": "instance", "visibility": "public", "comment": nil,
					"overloads": []any{map[string]any{"method_type": map[string]any{"type_params": []any{}, "block": nil, "type": rbsFunc(r, sig)}}}},
			}}
		}
		kws := []string{"mode", "flags"}
		s1 := rbsSig{Req: r.Intn(3), Untyped: true}
		s2 := rbsSig{Req: r.Intn(3), Opt: r.Intn(2), Untyped: true}
		if r.Chance(1, 2) {
			s1.ReqKw, s2.OptKw = kws[:1], kws[:1]
		} else {
			s1.OptKw, s2.ReqKw = kws[:r.Range(1, 2)], kws[:1]
		}
		parent, child := "Devbase", "Devfast"
		if r.Chance(1, 2) {
			parent, child = "Zdevbase", "Adevfast" // the child's output file sorts first
		}
		decls = append(decls, mkDev(parent, nil, s1), mkDev(child, map[string]any{"name": "::" + parent, "args": []any{}}, s2))
		models = append(models, rbsMethodModel{Class: parent, Name: "open_dev", Sigs: []rbsSig{s1}}, rbsMethodModel{Class: child, Name: "open_dev", Sigs: []rbsSig{s2}})
	}
	b, _ := json.Marshal(decls)
	return b, models
}

// ---- C source generator ------------------------------------------------------------------------

type cMethodModel struct {
	Name     string
	Class    bool // class method (callable as Gadget.name)
	Style    string
	Spec     string
	Body     string
	Min, Max int // accepted positional counts: Min <= k <= Max (Max < 0: unbounded)
	SkipOver int // do not judge k > SkipOver (mrbc style: extra arguments are not checked in C)
	ArgVals  []string
}

var fmtChars = []struct {
	c   byte
	val string
}{{'i', "1"}, {'f', "1.5"}, {'s', "\"s\""}, {'z', "\"s\""}, {'S', "\"s\""}, {'A', "[1]"}, {'a', "[1]"}, {'H', "{a: 1}"}, {'b', "true"}, {'n', ":s"}, {'C', "1"}, {'o', "1"}}

func genC(r *Rng) ([]byte, []cMethodModel) {
	var sb, defs strings.Builder
	var models []cMethodModel
	n := r.Range(1, 6)
	for m := 0; m < n; m++ {
		mm := cMethodModel{Name: fmt.Sprintf("%s%d", r.Pick([]string{"foo", "bar", "baz", "qux"}), m), SkipOver: 99}
		fn := "gadget_" + mm.Name
		style := r.Intn(5)
		req, opt, post := r.Intn(4), r.Intn(3), 0
		rest := r.Chance(1, 4)
		block := r.Chance(1, 5)
		if rest && r.Chance(1, 2) {
			post = r.Intn(3)
		}
		var specParts []string
		kind := r.Intn(10)
		switch {
		case kind == 0:
			specParts, req, opt, rest, post, block = []string{"MRB_ARGS_NONE()"}, 0, 0, false, 0, false
		case kind == 1:
			specParts, req, opt, rest, post, block = []string{"MRB_ARGS_ANY()"}, 0, 0, true, 0, false
		default:
			if req > 0 || (opt == 0 && !rest && post == 0 && !block) {
				specParts = append(specParts, fmt.Sprintf("MRB_ARGS_REQ(%d)", req))
			}
			if opt > 0 {
				specParts = append(specParts, fmt.Sprintf("MRB_ARGS_OPT(%d)", opt))
			}
			if rest {
				specParts = append(specParts, "MRB_ARGS_REST()")
			}
			if post > 0 {
				specParts = append(specParts, fmt.Sprintf("MRB_ARGS_POST(%d)", post))
			}
			if block {
				specParts = append(specParts, "MRB_ARGS_BLOCK()")
			}
		}
		// the spec as C programmers lay it out: on one line, or one term per line, with or
		// without a comment next to a term
		mm.Spec = strings.Join(specParts, r.Pick([]string{"|", " | ", " | ", " |\n                    ", "\n                    | ",
			" | /* then */ ", " |  /* next */\n                    ", " | // more\n                    "}))
		mm.Min, mm.Max = req+post, req+opt+post
		if rest {
			mm.Max = -1
		}
		// body
		body := ""
		vals := []string{}
		useFmt := kind >= 2 && r.Chance(1, 2) && style != 4
		if useFmt {
			var f strings.Builder
			pick := func() {
				fc := fmtChars[r.Intn(len(fmtChars))]
				f.WriteByte(fc.c)
				if r.Chance(1, 8) && (fc.c == 's' || fc.c == 'z' || fc.c == 'A' || fc.c == 'S' || fc.c == 'H') {
					f.WriteByte('!')
				}
				vals = append(vals, fc.val)
			}
			for i := 0; i < req; i++ {
				pick()
			}
			if opt > 0 || (rest && r.Chance(1, 2)) {
				f.WriteByte('|')
			}
			for i := 0; i < opt; i++ {
				pick()
			}
			if rest {
				f.WriteByte('*')
				if r.Chance(1, 6) {
					f.WriteByte('!')
				}
			}
			for i := 0; i < post; i++ {
				pick()
			}
			if block {
				f.WriteByte('&')
			}
			if r.Chance(1, 10) {
				f.WriteByte('?')
			}
			if f.Len() > 0 {
				body += fmt.Sprintf("  mrb_get_args(mrb, \"%s\", &a0);\n", f.String())
				mm.Body = "get_args:" + f.String()
			} else {
				useFmt = false
			}
		}
		if !useFmt {
			mm.Body = "spec-only"
			for i := 0; i < req+opt+post+3; i++ {
				vals = append(vals, "1")
			}
		}
		rets := []string{"return mrb_nil_value();", "return mrb_fixnum_value(1);", "return mrb_str_new_cstr(mrb, \"x\");", "return self;", "return mrb_true_value();", "return mrb_false_value();", "return mrb_float_value(mrb, 1.5);", "return mrb_ary_new(mrb);"}
		ret := r.Pick(rets)
		if r.Chance(1, 3) {
			// an error path that returns something of another kind before the normal result
			early := r.Pick(rets)
			if r.Chance(1, 3) {
				early += "\n  }\n  if (!hw_ok()) {\n    " + r.Pick(rets)
			}
			ret = "if (hw_error()) {\n    " + early + "\n  }\n  " + ret
		}
		switch style {
		case 0, 1:
			mm.Style = "mrb_define_class_method"
			mm.Class = true
			fmt.Fprintf(&defs, "  mrb_define_class_method(mrb, g, \"%s\", %s, %s);\n", mm.Name, fn, mm.Spec)
		case 2:
			mm.Style = "mrb_define_method"
			fmt.Fprintf(&defs, "  mrb_define_method(mrb, g, \"%s\", %s, %s);\n", mm.Name, fn, mm.Spec)
		case 3:
			mm.Style = "mrb_define_class_method_id"
			mm.Class = true
			fmt.Fprintf(&defs, "  mrb_define_class_method_id(mrb, g, MRB_SYM(%s), %s, %s);\n", mm.Name, fn, mm.Spec)
		case 4:
			// mruby/c: no args spec; arity comes from GET_*_ARG reads and argc guards
			mm.Style = "mrbc_define_method"
			mm.Spec = ""
			r0, o0 := r.Intn(3), r.Intn(3)
			body = ""
			if r.Chance(1, 2) {
				// a nested block before the argument reads (guard clause, wait loop): the
				// function body does not end at the first closing brace
				body += r.Pick([]string{
					"  if (argc > 8) {\n    mrbc_raise(vm, MRBC_CLASS(ArgumentError), \"too many\");\n    return;\n  }\n",
					"  while (hw_busy()) {\n    hw_wait();\n  }\n",
					"  if (v[0].tt == MRBC_TT_NIL) {\n    SET_NIL_RETURN();\n    return;\n  }\n",
				})
			}
			// the reads come in source order or in any other order (and an argument may be
			// read twice): what counts is the set of indexes, not where they appear
			order := func(lo, hi int) []int {
				var xs []int
				for i := lo; i <= hi; i++ {
					xs = append(xs, i)
				}
				if r.Chance(1, 2) {
					for i := len(xs) - 1; i > 0; i-- {
						j := r.Intn(i + 1)
						xs[i], xs[j] = xs[j], xs[i]
					}
					if len(xs) > 0 && r.Chance(1, 3) {
						xs = append(xs, xs[r.Intn(len(xs))])
					}
				}
				return xs
			}
			seen := map[int]bool{}
			valByIdx := map[int]string{}
			getterByIdx := map[int]string{}
			decl := func(i int) string {
				if seen[i] {
					// read once more, through the same getter
					return fmt.Sprintf("(void)%s;\n", getterByIdx[i])
				}
				seen[i] = true
				switch r.Intn(6) {
				case 0:
					valByIdx[i], getterByIdx[i] = "1.5", fmt.Sprintf("GET_FLOAT_ARG(%d)", i)
					return fmt.Sprintf("double v%d = GET_FLOAT_ARG(%d);\n", i, i)
				case 1:
					valByIdx[i], getterByIdx[i] = "\"s\"", fmt.Sprintf("GET_STRING_ARG(%d)", i)
					return fmt.Sprintf("const char *v%d = (const char *)GET_STRING_ARG(%d);\n", i, i)
				case 2:
					// the same argument read through two typed getters, chosen by its type tag
					valByIdx[i], getterByIdx[i] = "1", fmt.Sprintf("GET_TT_ARG(%d)", i) // an Integer satisfies whichever getter decides the type
					return fmt.Sprintf("double v%d = (GET_TT_ARG(%d) == MRBC_TT_FLOAT) ? GET_FLOAT_ARG(%d) : (double)GET_INT_ARG(%d);\n", i, i, i, i)
				case 3:
					valByIdx[i], getterByIdx[i] = "[1]", fmt.Sprintf("GET_ARY_ARG(%d)", i)
					return fmt.Sprintf("mrbc_value *v%d = GET_ARY_ARG(%d).array;\n", i, i)
				}
				getterByIdx[i] = fmt.Sprintf("GET_INT_ARG(%d)", i)
				return fmt.Sprintf("int v%d = GET_INT_ARG(%d);\n", i, i)
			}
			for _, i := range order(1, r0) {
				body += "  " + decl(i)
			}
			for k, i := range order(r0+1, r0+o0) {
				if k == 0 {
					body += fmt.Sprintf("  if (argc >= %d) {\n", r0+1)
				}
				body += "    " + decl(i)
			}
			if o0 > 0 {
				body += "  }\n"
			}
			mm.Body = fmt.Sprintf("GET_ARG r%d o%d", r0, o0)
			mm.Min, mm.Max, mm.SkipOver = r0, r0+o0, r0+o0
			if r0+o0 == 0 {
				mm.Min, mm.Max, mm.SkipOver = 0, 0, 0
			}
			if o0 > 0 && r0 == 0 {
				// "argc >= 1" guards make every argument optional
				mm.Min = 0
			}
			ret = "SET_INT_RETURN(1);"
			vals = []string{"1", "1", "1", "1", "1", "1", "1", "1"}
			for i, v := range valByIdx {
				if i >= 1 && i <= len(vals) {
					vals[i-1] = v
				}
			}
			fmt.Fprintf(&sb, "static void\n%s(mrbc_vm *vm, mrbc_value v[], int argc)\n{\n%s  %s\n}\n\n", fn, body, ret)
			fmt.Fprintf(&defs, "  mrbc_define_method(0, cls, \"%s\", %s);\n", mm.Name, fn)
			mm.ArgVals = vals
			models = append(models, mm)
			continue
		}
		fmt.Fprintf(&sb, "static mrb_value\n%s(mrb_state *mrb, mrb_value self)\n{\n  mrb_int a0;\n%s  %s\n}\n\n", fn, body, ret)
		mm.ArgVals = vals
		models = append(models, mm)
	}
	// one C function bound under a second (and third) Ruby name with an args spec of its own:
	// each binding accepts what ITS spec says (only for bodies without an mrb_get_args format,
	// where the spec is all there is)
	if r.Chance(1, 3) {
		var cands []int
		for j, m := range models {
			if m.Body == "spec-only" && m.Style != "mrbc_define_method" {
				cands = append(cands, j)
			}
		}
		for extra := 0; len(cands) > 0 && extra < r.Range(1, 2); extra++ {
			base := models[cands[r.Intn(len(cands))]]
			req, opt, rest := r.Intn(4), r.Intn(3), r.Chance(1, 4)
			var parts []string
			if req > 0 || (opt == 0 && !rest) {
				parts = append(parts, fmt.Sprintf("MRB_ARGS_REQ(%d)", req))
			}
			if opt > 0 {
				parts = append(parts, fmt.Sprintf("MRB_ARGS_OPT(%d)", opt))
			}
			if rest {
				parts = append(parts, "MRB_ARGS_REST()")
			}
			if req == 0 && opt == 0 && !rest && r.Chance(1, 2) {
				parts = []string{"MRB_ARGS_NONE()"}
			}
			alt := cMethodModel{Name: fmt.Sprintf("alt%d_%s", extra, base.Name), SkipOver: 99, Body: "spec-only", Spec: strings.Join(parts, "|"),
				Min: req, Max: req + opt, ArgVals: []string{"1", "1", "1", "1", "1", "1", "1", "1", "1"}}
			if rest {
				alt.Max = -1
			}
			fn := "gadget_" + base.Name
			var line string
			switch r.Intn(4) {
			case 0:
				alt.Style, alt.Class = "mrb_define_class_method", true
				line = fmt.Sprintf("  mrb_define_class_method(mrb, g, \"%s\", %s, %s);\n", alt.Name, fn, alt.Spec)
			case 1:
				alt.Style = "mrb_define_method"
				line = fmt.Sprintf("  mrb_define_method(mrb, g, \"%s\", %s, %s);\n", alt.Name, fn, alt.Spec)
			case 2:
				alt.Style, alt.Class = "mrb_define_class_method_id", true
				line = fmt.Sprintf("  mrb_define_class_method_id(mrb, g, MRB_SYM(%s), %s, %s);\n", alt.Name, fn, alt.Spec)
			default:
				alt.Style = "mrb_define_method_id"
				line = fmt.Sprintf("  mrb_define_method_id(mrb, g, MRB_SYM(%s), %s, %s);\n", alt.Name, fn, alt.Spec)
			}
			alt.Body = "spec-only:shared-function"
			if r.Chance(1, 2) {
				old := defs.String()
				defs.Reset()
				defs.WriteString(line + old)
			} else {
				defs.WriteString(line)
			}
			models = append(models, alt)
		}
	}
	sb.WriteString("void\nmrb_gadget_gem_init(mrb_state *mrb)\n{\n  struct RClass *g = mrb_define_class(mrb, \"Gadget\", mrb->object_class);\n")
	sb.WriteString(defs.String())
	sb.WriteString("}\n")
	return []byte(sb.String()), models
}

// ---- cases ----------------------------------------------------------------------------------------

const stubRuby = "#!/bin/sh\n# stand-in for `ruby rbs_ast.rb <input>`: the scenario's AST JSON is the input file\ncat \"$2\"\n"

func (o *convPipe) Make(c *Ctx, i int) *Case {
	r := Stream(c.Seed, o.prop, i, "case")
	cs := &Case{Prop: o.prop, Index: i, Cfg: "none", Meta: map[string]string{}}
	var files map[string][]byte
	var argv []string
	if o.prop == "C25" {
		doc, models := genRBS(r)
		mb, _ := json.Marshal(models)
		cs.Meta["models"] = string(mb)
		files = map[string][]byte{"input.rbs": doc, "bin/ruby": []byte(stubRuby)}
		cs.Kind = []string{"stdout", "file", "dir"}[r.Intn(3)]
		switch cs.Kind {
		case "stdout":
			argv = []string{"input.rbs"}
		case "file":
			argv = []string{"-o", "out.json", "input.rbs"}
		default:
			argv = []string{"-o", "outdir/", "input.rbs"}
		}
	} else {
		src, models := genC(r)
		mb, _ := json.Marshal(models)
		cs.Meta["models"] = string(mb)
		files = map[string][]byte{"gadget.c": src}
		cs.Kind = []string{"stdout", "file"}[r.Intn(2)]
		argv = []string{"-class", "Gadget"}
		if r.Chance(1, 3) {
			argv = append(argv, "-module")
			cs.Meta["module"] = "1"
		}
		if cs.Kind == "file" {
			argv = append(argv, "-o", "out.json")
		}
		argv = append(argv, "gadget.c")
	}
	node := map[string]string{"C25": "rbs2json", "C26": "c2json"}[o.prop]
	for k := 0; k < o.k; k++ {
		st := Step{Node: node, Argv: argv, Seed: r.U64(), Sched: "seeded", Env: map[string]string{"PATH": "$WORKDIR/bin:/usr/bin:/bin"}}
		switch k {
		case 0:
			st.Sched = "canon"
			st.Files = files
		case 1:
			st.Sched = "rev"
		}
		cs.Faults = append(cs.Faults, "sched-"+st.Sched)
		cs.Steps = append(cs.Steps, st)
	}
	return cs
}

// collectOutput gathers what a converter run produced: stdout plus every written file.
func collectOutput(w *Worker, res Result) map[string][]byte {
	out := map[string][]byte{"<stdout>": res.Stdout}
	for _, name := range []string{"out.json"} {
		if b, err := os.ReadFile(filepath.Join(w.dir, name)); err == nil {
			out[name] = b
			os.Remove(filepath.Join(w.dir, name))
		}
	}
	if ents, err := os.ReadDir(filepath.Join(w.dir, "outdir")); err == nil {
		for _, e := range ents {
			b, _ := os.ReadFile(filepath.Join(w.dir, "outdir", e.Name()))
			out["outdir/"+e.Name()] = b
		}
		os.RemoveAll(filepath.Join(w.dir, "outdir"))
	}
	return out
}

func sameOutput(a, b map[string][]byte) (bool, string) {
	for k, v := range a {
		if !bytes.Equal(v, b[k]) {
			return false, fmt.Sprintf("%s: %s", k, firstDiff(string(v), string(b[k])))
		}
	}
	for k := range b {
		if _, ok := a[k]; !ok {
			return false, "extra output " + k
		}
	}
	return true, ""
}

type tiArg struct {
	Type       any    `json:"type"`
	Key        string `json:"key"`
	IsAsterisk bool   `json:"is_asterisk"`
	IsDefault  bool   `json:"is_default"`
}
type tiMeth struct {
	Name string  `json:"name"`
	Args []tiArg `json:"arguments"`
}
type tiClass struct {
	Frame string   `json:"frame"`
	Class string   `json:"class"`
	IM    []tiMeth `json:"instance_methods"`
	CM    []tiMeth `json:"class_methods"`
}

func (o *convPipe) Judge(c *Ctx, w *Worker, cs *Case) *Finding {
	var first map[string][]byte
	var firstRes Result
	evs := map[string]bool{}
	for i := range cs.Steps {
		res := c.RunStep(w, cs, i, 60_000_000, i > 0)
		c.Stats.Inc("status:" + res.Status)
		evs[res.EvHash] = true
		if res.Status != "exit" {
			at := res.HangAt
			if len(res.PanicAt) > 0 {
				at = res.PanicAt[0]
			}
			return &Finding{Sig: "conv:" + res.Status + ":" + res.Panic + "@" + at, What: fmt.Sprintf("converter ended with %s %s %s", res.Status, res.Panic, firstLine(res.PanicS))}
		}
		if res.Exit == 1 && bytes.Contains(res.Stderr, []byte("use directory output")) {
			c.Stats.Inc("file_mode_with_several_classes_refused")
			return nil // documented refusal: -o <file> with more than one class
		}
		if res.Exit != 0 {
			return &Finding{Sig: fmt.Sprintf("conv:exit:%d", res.Exit), What: fmt.Sprintf("converter exit %d: %s", res.Exit, shortStr(res.Stderr, 200))}
		}
		out := collectOutput(w, res)
		if i == 0 {
			first, firstRes = out, res
			continue
		}
		if ok, d := sameOutput(first, out); !ok {
			site := "several-sites"
			{
				// every map site canonical: what remains seeded is the goroutine schedule, the
				// select order, the clock and the process-wide random generator
				probe := cloneCase(cs)
				probe.Steps = []Step{cs.Steps[0], cs.Steps[i]}
				probe.Steps[0].Files = stepFiles(cs, 0)
				probe.Steps[1].Only = []int{-1}
				c.RunStep(w, probe, 0, 60_000_000, false)
				collectOutput(w, Result{})
				r2 := c.RunStep(w, probe, 1, 60_000_000, true)
				if ok2, _ := sameOutput(first, collectOutput(w, r2)); !ok2 {
					site = "clock-or-random-source"
					if res.SchedEvts > 0 {
						site = "goroutine-schedule"
					}
					return &Finding{Sig: "nondet@" + site, What: fmt.Sprintf("converting the same input twice gives different output although every map is iterated in canonical order (schedule %d %s vs canonical): %s", i, cs.Steps[i].Sched, d)}
				}
			}
			for _, s := range res.Sites {
				if s.MaxN < 2 {
					continue
				}
				probe := cloneCase(cs)
				probe.Steps = []Step{cs.Steps[0], cs.Steps[i]}
				probe.Steps[0].Files = stepFiles(cs, 0)
				probe.Steps[1].Only = []int{s.Site}
				c.RunStep(w, probe, 0, 60_000_000, false)
				collectOutput(w, Result{})
				r2 := c.RunStep(w, probe, 1, 60_000_000, true)
				if ok2, _ := sameOutput(first, collectOutput(w, r2)); !ok2 {
					site = c.siteName(s.Site)
					break
				}
			}
			return &Finding{Sig: "nondet@" + site, What: fmt.Sprintf("converting the same input twice gives different output (schedule %d %s vs canonical): %s", i, cs.Steps[i].Sched, d)}
		}
	}
	_ = firstRes
	for h := range evs {
		c.Stats.mu.Lock()
		if len(c.Stats.Distinct) < 1_000_000 && o.prop == "C25" {
			c.Stats.Distinct[h] = true
		}
		c.Stats.mu.Unlock()
	}
	// produced configuration, as files the ti node can load
	var classes []tiClass
	produced := map[string][]byte{}
	for name, b := range first {
		if len(bytes.TrimSpace(b)) == 0 || (name == "<stdout>" && cs.Kind != "stdout") {
			continue
		}
		if name == "<stdout>" && o.prop == "C26" && cs.Kind == "file" {
			continue
		}
		var one tiClass
		var many []tiClass
		if json.Unmarshal(b, &many) == nil {
			classes = append(classes, many...)
			for k, cl := range many {
				cb, _ := json.Marshal(cl)
				_ = cb
				_ = k
			}
			// a JSON array is not a loadable config file; re-split it per class
			var raw []json.RawMessage
			json.Unmarshal(b, &raw)
			for k, rb := range raw {
				produced[fmt.Sprintf("zz_out_%d.json", k)] = rb
			}
		} else if err := json.Unmarshal(b, &one); err == nil {
			classes = append(classes, one)
			produced["zz_out_"+strings.NewReplacer("/", "_", "<", "", ">", "").Replace(name)+".json"] = b
		} else {
			return &Finding{Sig: "conv:badjson", What: fmt.Sprintf("output %s is not JSON: %v", name, err)}
		}
	}
	if o.prop == "C25" {
		if f := o.shapeC25(c, cs, classes); f != nil {
			return f
		}
	}
	return o.arity(c, w, cs, classes, produced)
}

// shapeC25: per overload, arguments must be required positionals, optional (is_default),
// rest (is_asterisk), trailing, required keywords, optional keywords (is_default), key = name + ":".
func (o *convPipe) shapeC25(c *Ctx, cs *Case, classes []tiClass) *Finding {
	var models []rbsMethodModel
	json.Unmarshal([]byte(cs.Meta["models"]), &models)
	byClass := map[string]tiClass{}
	for _, cl := range classes {
		full := cl.Class
		if fs := strings.TrimPrefix(strings.TrimPrefix(cl.Frame, "Builtin"), "::"); fs != "" {
			full = fs + "::" + cl.Class
		}
		byClass[full] = cl
	}
	for _, m := range models {
		if m.TParam != "" {
			continue // typed probe methods are judged end to end in arity()
		}
		cl, ok := byClass[m.Class]
		if !ok {
			return &Finding{Sig: "shape:missing-class", What: "class " + m.Class + " missing from the output"}
		}
		list := cl.IM
		if m.Singleton {
			list = cl.CM
		}
		var got []tiMeth
		for _, tm := range list {
			if tm.Name == m.Name {
				got = append(got, tm)
			}
		}
		if len(got) == 0 {
			continue // private methods are dropped by the converter
		}
		c.Stats.Inc("shape_checked_methods")
		if len(got) != len(m.Sigs) {
			return &Finding{Sig: "shape:overload-count", What: fmt.Sprintf("%s.%s: %d overloads in RBS, %d in the output", m.Class, m.Name, len(m.Sigs), len(got))}
		}
		for v, sig := range m.Sigs {
			args := got[v].Args
			want := sig.Req + sig.Opt + sig.Trail + len(sig.ReqKw) + len(sig.OptKw)
			if sig.Rest {
				want++
			}
			bad := func(why string) *Finding {
				ab, _ := json.Marshal(args)
				return &Finding{Sig: "shape:" + why, What: fmt.Sprintf("%s.%s overload %d (req %d opt %d rest %v trail %d reqkw %v optkw %v): %s; got %s", m.Class, m.Name, v, sig.Req, sig.Opt, sig.Rest, sig.Trail, sig.ReqKw, sig.OptKw, why, ab)}
			}
			if len(args) != want {
				return bad("argument-count")
			}
			i := 0
			for k := 0; k < sig.Req; k, i = k+1, i+1 {
				if args[i].Key != "" || args[i].IsDefault || args[i].IsAsterisk {
					return bad("required-positional")
				}
			}
			for k := 0; k < sig.Opt; k, i = k+1, i+1 {
				if args[i].Key != "" || !args[i].IsDefault || args[i].IsAsterisk {
					return bad("optional-positional")
				}
			}
			if sig.Rest {
				if args[i].Key != "" || !args[i].IsAsterisk {
					return bad("rest-positional")
				}
				i++
			}
			for k := 0; k < sig.Trail; k, i = k+1, i+1 {
				if args[i].Key != "" || args[i].IsDefault || args[i].IsAsterisk {
					return bad("trailing-positional")
				}
			}
			set := func(names []string) map[string]bool {
				m := map[string]bool{}
				for _, n := range names {
					m[n+":"] = true
				}
				return m
			}
			rk, ok2 := set(sig.ReqKw), set(sig.OptKw)
			for k := 0; k < len(sig.ReqKw); k, i = k+1, i+1 {
				if !rk[args[i].Key] || args[i].IsDefault {
					return bad("required-keyword")
				}
				delete(rk, args[i].Key)
			}
			for k := 0; k < len(sig.OptKw); k, i = k+1, i+1 {
				if !ok2[args[i].Key] || !args[i].IsDefault {
					return bad("optional-keyword")
				}
				delete(ok2, args[i].Key)
			}
		}
	}
	return nil
}

// arity boots a ti node on shipped config + produced files and calls the methods.
func (o *convPipe) arity(c *Ctx, w *Worker, cs *Case, classes []tiClass, produced map[string][]byte) *Finding {
	type probe struct {
		row    int
		call   string
		accept bool
		what   string
		shape  string
	}
	var probes []probe
	wants := map[int]string{} // row -> text the row must print (dbtp of a return value)
	var sb strings.Builder
	row := 0
	line := func(s string) int { sb.WriteString(s + "\n"); row++; return row }
	if o.prop == "C25" {
		var models []rbsMethodModel
		json.Unmarshal([]byte(cs.Meta["models"]), &models)
		for _, m := range models {
			if len(m.Sigs) != 1 || !m.Sigs[0].Untyped || strings.Contains(m.Class, "::") {
				continue
			}
			found := false
			for _, cl := range classes {
				if cl.Class == m.Class {
					for _, tm := range append(append([]tiMeth{}, cl.IM...), cl.CM...) {
						if tm.Name == m.Name {
							found = true
						}
					}
				}
			}
			if !found {
				continue
			}
			sig := m.Sigs[0]
			recv := m.Class
			if !m.Singleton {
				recv = m.Class + ".new"
			}
			kwAll := []string{}
			for _, k := range sig.ReqKw {
				kwAll = append(kwAll, k+": 1")
			}
			lo, hi := sig.Req+sig.Trail, sig.Req+sig.Opt+sig.Trail
			for k := 0; k <= hi+2 && k <= 8; k++ {
				args := []string{}
				for a := 0; a < k; a++ {
					args = append(args, fmt.Sprint(a+1))
				}
				args = append(args, kwAll...)
				call := fmt.Sprintf("%s.%s(%s)", recv, m.Name, strings.Join(args, ", "))
				ok := k >= lo && (sig.Rest || k <= hi)
				rel := "within"
				if k < lo {
					rel = "below-min"
				} else if !sig.Rest && k > hi {
					rel = "above-max"
				}
				probes = append(probes, probe{line(call), call, ok, fmt.Sprintf("%d positional(s), RBS allows %d..%d rest=%v", k, lo, hi, sig.Rest), decisive(rel, sig.traits())})
			}
			if len(sig.ReqKw) > 0 {
				args := []string{}
				for a := 0; a < lo; a++ {
					args = append(args, "1")
				}
				for _, k := range sig.ReqKw[1:] {
					args = append(args, k+": 1")
				}
				call := fmt.Sprintf("%s.%s(%s)", recv, m.Name, strings.Join(args, ", "))
				probes = append(probes, probe{line(call), call, false, "required keyword " + sig.ReqKw[0] + ": missing", decisive("reqkw-missing", sig.traits())})
			}
			if len(sig.OptKw) > 0 {
				args := []string{}
				for a := 0; a < lo; a++ {
					args = append(args, "1")
				}
				args = append(args, kwAll...)
				args = append(args, sig.OptKw[0]+": 1")
				call := fmt.Sprintf("%s.%s(%s)", recv, m.Name, strings.Join(args, ", "))
				probes = append(probes, probe{line(call), call, true, "optional keyword given", decisive("optkw-given", sig.traits())})
			}
		}
		// type mapping, end to end: a literal of the declared core type is accepted, one of
		// another type is rejected, and the call has the declared return type
		for _, m := range models {
			if m.TParam == "" || strings.Contains(m.Class, "::") {
				continue
			}
			pt, rt := coreTypes[m.TParam], coreTypes[m.TRet]
			call := fmt.Sprintf("%s.%s(%s)", m.Class, m.Name, pt.good)
			probes = append(probes, probe{line(call), call, true, "argument of the declared type " + m.TParam, "type-accept:" + m.TParam})
			bad := fmt.Sprintf("%s.%s(%s)", m.Class, m.Name, pt.bad)
			probes = append(probes, probe{line(bad), bad, false, "argument of another type than " + m.TParam, "type-reject:" + m.TParam})
			d := "dbtp " + call
			probes = append(probes, probe{line(d), d, true, "declared return type " + m.TRet, "type-return:" + m.TRet})
			wants[row] = rt.shown
		}
	} else {
		var models []cMethodModel
		json.Unmarshal([]byte(cs.Meta["models"]), &models)
		names := map[string]int{}
		for _, m := range models {
			names[m.Name]++
		}
		for _, m := range models {
			c.Stats.Cell(m.Style + "|" + specShape(m.Spec) + "|" + strings.SplitN(m.Body, ":", 2)[0])
			if !(m.Class || cs.Meta["module"] == "1") || names[m.Name] > 1 {
				continue
			}
			for k := 0; k <= 6; k++ {
				if k > m.SkipOver {
					continue
				}
				args := []string{}
				for a := 0; a < k; a++ {
					v := "1"
					if a < len(m.ArgVals) {
						v = m.ArgVals[a]
					}
					args = append(args, v)
				}
				if m.Max < 0 && strings.HasPrefix(m.Body, "get_args") {
					// with a rest section the typed post arguments come last: keep them typed
				}
				call := fmt.Sprintf("Gadget.%s(%s)", m.Name, strings.Join(args, ", "))
				ok := k >= m.Min && (m.Max < 0 || k <= m.Max)
				rel := "within"
				if k < m.Min {
					rel = "below-min"
				} else if m.Max >= 0 && k > m.Max {
					rel = "above-max"
				}
				probes = append(probes, probe{line(call), call, ok, fmt.Sprintf("%d argument(s); C accepts %d..%d via %s %s [%s]", k, m.Min, m.Max, m.Style, m.Spec, m.Body),
					decisive(rel, cTraits(m))})
			}
		}
	}
	if len(probes) == 0 {
		c.Stats.Inc("cases_without_arity_probes")
		return nil
	}
	cfg := map[string][]byte{}
	for n, b := range c.ShippedCfg {
		cfg[n] = b
	}
	for n, b := range produced {
		cfg[n] = b
	}
	id := c.World.AddConfig(cfg)
	defer func() { c.World.DropConfig(id); w.cfg = "?" }()
	res := w.Exec(&Job{Node: "ti", Cfg: id, Files: map[string][]byte{target: []byte(sb.String())}, Argv: []string{target}, Seed: cs.Steps[0].Seed, Sched: "canon", Budget: stage2Budget, NsTick: nsPerTick})
	if res.Status != "exit" {
		return nil // crash / hang of ti itself: C01 / C02
	}
	diag := map[int]string{}
	for _, l := range splitLines(res.Stdout) {
		parts := strings.SplitN(l, ":::", 3)
		if len(parts) == 3 {
			var rw int
			fmt.Sscan(parts[1], &rw)
			if _, ok := diag[rw]; !ok {
				diag[rw] = parts[2]
			}
		}
	}
	c.Stats.Add("arity_probes", len(probes))
	var firstF *Finding
	for _, p := range probes {
		msg, flagged := diag[p.row]
		if want := wants[p.row]; want != "" {
			if !flagged || msg != want {
				f := &Finding{Sig: "types:" + p.shape, What: fmt.Sprintf("`%s` (%s): ti prints %q, expected %q", p.call, p.what, msg, want)}
				if firstF == nil {
					firstF = f
				}
				if c.openKnown(f.Sig) == nil {
					cs.Meta["probe_program"] = sb.String()
					return f
				}
			}
			continue
		}
		if flagged == p.accept {
			kind := "rejects-valid-call"
			if !p.accept {
				kind = "accepts-invalid-call"
			}
			f := &Finding{Sig: "arity:" + kind + ":" + p.shape, What: fmt.Sprintf("`%s` (%s): ti says %q", p.call, p.what, msg)}
			if firstF == nil {
				firstF = f
			}
			// a deviation that is not a listed known finding must not hide behind one that is
			if c.openKnown(f.Sig) == nil {
				cs.Meta["probe_program"] = sb.String()
				return f
			}
		}
	}
	if firstF != nil {
		cs.Meta["probe_program"] = sb.String()
	}
	return firstF
}

// cTraits names the features of a C definition that select ti's arity code path.
func cTraits(m cMethodModel) string {
	var t []string
	src := m.Spec + " " + m.Body
	if strings.Contains(src, "OPT(") || strings.Contains(m.Body, "|") || strings.Contains(m.Body, " o1") || strings.Contains(m.Body, " o2") {
		t = append(t, "opt")
	}
	if strings.Contains(src, "REST()") || strings.Contains(src, "ANY()") || strings.Contains(m.Body, "*") {
		t = append(t, "rest")
	}
	if strings.Contains(src, "POST(") {
		t = append(t, "post")
	}
	if (strings.Contains(src, "BLOCK()") || strings.Contains(m.Body, "&")) && (strings.Contains(src, "REST()") || strings.Contains(m.Body, "*")) {
		t = append(t, "trail") // a block parameter is emitted after the rest parameter
	}
	if m.Style == "mrbc_define_method" {
		t = append(t, "mrbc")
	}
	if len(t) == 0 {
		return "plain"
	}
	return strings.Join(t, "+")
}

func specShape(s string) string {
	s = reDigits.ReplaceAllString(s, "n")
	return strings.ReplaceAll(s, " ", "")
}

func arityShape(s string) string {
	s = reDigits.ReplaceAllString(s, "n")
	if i := strings.Index(s, " via "); i >= 0 {
		s = s[i+5:]
	}
	if len(s) > 70 {
		s = s[:70]
	}
	return s
}

func (o *convPipe) Confirm(c *Ctx, cs *Case, f *Finding) (bool, string) {
	w := c.Pool.workers[len(c.Pool.workers)-1]
	g := o.Judge(c, w, cs)
	if g == nil || g.Sig != f.Sig {
		return false, "did not reproduce in a second simulator process"
	}
	acc := "reproduced identically in a second simulator process"
	if strings.HasPrefix(f.Sig, "nondet") {
		node := cs.Steps[0].Node
		outs := map[string]int{}
		for t := 0; t < 20; t++ {
			env := map[string]string{"PATH": filepath.Join(c.Work, "real", "bin") + ":/usr/bin:/bin"}
			rr := c.RealRunX(node, stepFiles(cs, 0), cs.Steps[0].Argv, env)
			outs[rr]++
		}
		acc += fmt.Sprintf("; plain build produced %d distinct outputs in 20 fresh processes", len(outs))
	}
	return true, acc
}

// RealRunX runs a converter's plain build and returns a digest of everything it produced.
func (c *Ctx) RealRunX(node string, files map[string][]byte, argv []string, env map[string]string) string {
	rr := c.RealRun(node, "", files, argv, env)
	dir := filepath.Join(c.Work, "real")
	var sb strings.Builder
	sb.Write(rr.Stdout)
	if b, err := os.ReadFile(filepath.Join(dir, "out.json")); err == nil {
		sb.Write(b)
	}
	if ents, err := os.ReadDir(filepath.Join(dir, "outdir")); err == nil {
		for _, e := range ents {
			b, _ := os.ReadFile(filepath.Join(dir, "outdir", e.Name()))
			sb.WriteString(e.Name())
			sb.Write(b)
		}
	}
	return sb.String()
}

func (o *convPipe) Shrinks(c *Ctx, cs *Case) []*Case {
	var out []*Case
	if len(cs.Steps) > 2 {
		for i := 1; i < len(cs.Steps); i++ {
			n := cloneCase(cs)
			n.Steps = []Step{cs.Steps[0], cs.Steps[i]}
			n.Steps[0].Files = stepFiles(cs, 0)
			out = append(out, n)
		}
	}
	return out
}

func (o *convPipe) Describe(cs *Case) any {
	in := "input.rbs"
	if o.prop == "C26" {
		in = "gadget.c"
	}
	var sch []string
	for _, s := range cs.Steps {
		sch = append(sch, s.Sched)
	}
	return map[string]any{"mode": cs.Kind, "argv": cs.Steps[0].Argv, "schedules": sch, "input_bytes": len(cs.Steps[0].Files[in]), "input_head": shortStr(cs.Steps[0].Files[in], 300)}
}

// convGate: the instrumented converter must print what the plain build prints.
func convGate(c *Ctx, prop string) gateResult {
	o := &convPipe{prop: prop, k: 1}
	var g gateResult
	w := c.Pool.One()
	for i := 0; i < 12; i++ {
		cs := o.Make(c, 1_000_000+i)
		cs.Steps = cs.Steps[:1]
		res := c.RunStep(w, cs, 0, 60_000_000, false)
		simOut := collectOutput(w, res)
		keys := make([]string, 0, len(simOut))
		for k := range simOut {
			keys = append(keys, k)
		}
		sort.Strings(keys)
		env := map[string]string{"PATH": filepath.Join(c.Work, "real", "bin") + ":/usr/bin:/bin"}
		real := c.RealRunX(cs.Steps[0].Node, stepFiles(cs, 0), cs.Steps[0].Argv, env)
		// compare with the canonical-order simulated run only where map order cannot matter:
		// byte length and sorted line multiset
		var sb strings.Builder
		sb.Write(simOut["<stdout>"])
		if b, ok := simOut["out.json"]; ok {
			sb.Write(b)
		}
		var names []string
		for k := range simOut {
			if strings.HasPrefix(k, "outdir/") {
				names = append(names, k)
			}
		}
		sort.Strings(names)
		for _, k := range names {
			sb.WriteString(strings.TrimPrefix(k, "outdir/"))
			sb.Write(simOut[k])
		}
		// a scenario on which the converter's output depends on the schedule (in the simulator)
		// or differs between two real runs is not a reference scenario: the exploration reports
		// it as a determinism finding; it says nothing about the fidelity of the instrumentation
		dependent := false
		for k, sch := range []string{"rev", "seeded", "seeded"} {
			other := *cs
			other.Steps = []Step{cs.Steps[0]}
			other.Steps[0].Sched, other.Steps[0].Seed = sch, uint64(7919*(i+1)+k)
			res2 := c.RunStep(w, &other, 0, 60_000_000, false)
			if same, _ := sameOutput(simOut, collectOutput(w, res2)); !same {
				dependent = true
				break
			}
		}
		if dependent {
			g.Skipped++
			continue
		}
		if real2 := c.RealRunX(cs.Steps[0].Node, stepFiles(cs, 0), cs.Steps[0].Argv, env); real2 != real {
			g.Skipped++
			continue
		}
		if sortedLines(sb.String()) != sortedLines(real) {
			infra("fidelity gate (%s): instrumented converter and plain build disagree on generated input %d:\n sim %q\n real %q", prop, i, shortStr([]byte(sb.String()), 300), shortStr([]byte(real), 300))
		}
		g.Compared++
	}
	return g
}

func sortedLines(s string) string {
	ls := strings.Split(s, "\n")
	sort.Strings(ls)
	return strings.Join(ls, "\n")
}
