package main

import (
	"bytes"
	"fmt"
	"sort"
	"strings"
	"unicode/utf8"
)

// ---- one integer decides everything ---------------------------------------------------

func fin(z uint64) uint64 {
	z = (z ^ (z >> 30)) * 0xbf58476d1ce4e5b9
	z = (z ^ (z >> 27)) * 0x94d049bb133111eb
	return z ^ (z >> 31)
}

func hashStr(s string) uint64 {
	h := uint64(0xcbf29ce484222325)
	for i := 0; i < len(s); i++ {
		h ^= uint64(s[i])
		h *= 0x100000001b3
	}
	return h
}

// Rng is SplitMix64. A stream is keyed by (VERIF_SEED, property, case index, purpose), so
// what a case draws does not depend on worker count or completion order.
type Rng struct{ s uint64 }

func Stream(seed uint64, prop string, idx int, purpose string) *Rng {
	s := fin(seed + 0x9e3779b97f4a7c15)
	s = fin(s ^ hashStr(prop))
	s = fin(s ^ uint64(idx)*0x9e3779b97f4a7c15)
	s = fin(s ^ hashStr(purpose))
	return &Rng{s}
}

func (r *Rng) U64() uint64 { r.s += 0x9e3779b97f4a7c15; return fin(r.s) }
func (r *Rng) Intn(n int) int {
	if n <= 0 {
		return 0
	}
	return int(r.U64() % uint64(n))
}
func (r *Rng) Chance(num, den int) bool { return r.Intn(den) < num }
func (r *Rng) Pick(xs []string) string {
	if len(xs) == 0 {
		return ""
	}
	return xs[r.Intn(len(xs))]
}
func (r *Rng) Range(lo, hi int) int { return lo + r.Intn(hi-lo+1) }

// ---- a small, independent Ruby scanner (driver side; not ruby-ti's lexer) ---------------

type Tok struct {
	Kind string // id num str sym com ws nl punct heredoc
	Text string
	Off  int
}

func isIdStart(c byte) bool {
	return c == '_' || c == '@' || c == '$' || (c >= 'a' && c <= 'z') || (c >= 'A' && c <= 'Z') || c >= 0x80
}
func isIdChar(c byte) bool { return isIdStart(c) || (c >= '0' && c <= '9') || c == '?' || c == '!' }

// Scan splits src into tokens whose texts concatenate back to src.
func Scan(src []byte) []Tok {
	var out []Tok
	i := 0
	n := len(src)
	emit := func(kind string, j int) {
		out = append(out, Tok{kind, string(src[i:j]), i})
		i = j
	}
	for i < n {
		c := src[i]
		switch {
		case c == '\n':
			emit("nl", i+1)
		case c == ' ' || c == '\t' || c == '\r':
			j := i
			for j < n && (src[j] == ' ' || src[j] == '\t' || src[j] == '\r') {
				j++
			}
			emit("ws", j)
		case c == '#' && !(i+1 < n && src[i+1] == '{'):
			j := i
			for j < n && src[j] != '\n' {
				j++
			}
			emit("com", j)
		case c == '"' || c == '\'' || c == '`':
			j := i + 1
			for j < n && src[j] != c {
				if src[j] == '\\' {
					j++
				}
				j++
			}
			if j < n {
				j++
			}
			if j > n {
				j = n
			}
			emit("str", j)
		case c >= '0' && c <= '9':
			j := i
			for j < n && (isIdChar(src[j]) || (src[j] == '.' && j+1 < n && src[j+1] >= '0' && src[j+1] <= '9')) {
				j++
			}
			emit("num", j)
		case c == ':' && i+1 < n && isIdStart(src[i+1]):
			j := i + 1
			for j < n && isIdChar(src[j]) {
				j++
			}
			emit("sym", j)
		case isIdStart(c):
			j := i
			for j < n && isIdChar(src[j]) {
				j++
			}
			if j < n && src[j] == ':' && !(j+1 < n && src[j+1] == ':') {
				j++ // keyword label
			}
			emit("id", j)
		default:
			j := i + 1
			// multi-char operators
			for _, op := range []string{"<<~", "<<-", "**=", "<=>", "===", "...", "&&=", "||=", "<<", ">>", "**", "==", "!=", ">=", "<=", "&&", "||", "+=", "-=", "*=", "/=", "=>", "->", "..", "::", "&.", "=~", "#{"} {
				if strings.HasPrefix(string(src[i:min(n, i+3)]), op) {
					j = i + len(op)
					break
				}
			}
			emit("punct", j)
		}
	}
	return out
}

func Join(ts []Tok) []byte {
	var sb strings.Builder
	for _, t := range ts {
		sb.WriteString(t.Text)
	}
	return []byte(sb.String())
}

// EOF context classification, used both to bias cut points and as the coverage measure.
func CutContext(src []byte, k int) string {
	if k <= 0 {
		return "empty"
	}
	if k >= len(src) {
		if len(src) > 0 && src[len(src)-1] == '\n' {
			return "complete"
		}
		return "complete-nonl"
	}
	toks := Scan(src)
	var cur Tok
	for _, t := range toks {
		if t.Off < k {
			cur = t
		} else {
			break
		}
	}
	inside := k < cur.Off+len(cur.Text)
	// depth of brackets / keywords before the cut
	par, blk := 0, 0
	lineHead := ""
	for _, t := range toks {
		if t.Off >= k {
			break
		}
		switch t.Kind {
		case "punct":
			switch t.Text {
			case "(", "[", "{":
				par++
			case ")", "]", "}":
				if par > 0 {
					par--
				}
			}
		case "id":
			switch t.Text {
			case "def", "class", "module", "if", "unless", "while", "until", "case", "do", "begin", "for":
				blk++
			case "end":
				if blk > 0 {
					blk--
				}
			}
		case "nl":
			lineHead = ""
			continue
		}
		if lineHead == "" && t.Kind != "ws" {
			lineHead = t.Text
		}
	}
	ctx := cur.Kind
	if inside {
		ctx += "-mid"
	} else {
		ctx += "-end"
	}
	if cur.Kind == "punct" {
		ctx += ":" + cur.Text
	}
	if !utf8.Valid(src[:k]) {
		ctx += "+badutf8"
	}
	switch lineHead {
	case "def", "class", "module", "case", "in", "when", "if", "unless", "while":
		ctx += "@" + lineHead
	}
	if par > 0 {
		ctx += "+paren"
	}
	if blk > 0 {
		ctx += "+block"
	}
	return ctx
}

// BiasedCuts returns cut offsets: token boundaries +-1, line ends, insides of strings,
// comments, def headers, plus uniform ones.
func BiasedCuts(src []byte, r *Rng, want int) []int {
	n := len(src)
	if n == 0 {
		return []int{0}
	}
	toks := Scan(src)
	seen := map[int]bool{}
	var out []int
	add := func(k int) {
		if k < 0 || k > n || seen[k] {
			return
		}
		seen[k] = true
		out = append(out, k)
	}
	for tries := 0; len(out) < want && tries < want*6; tries++ {
		t := toks[r.Intn(len(toks))]
		switch r.Intn(8) {
		case 0:
			add(t.Off)
		case 1:
			add(t.Off + 1)
		case 2:
			add(t.Off + len(t.Text))
		case 3:
			add(t.Off + len(t.Text) - 1)
		case 4:
			if len(t.Text) > 2 {
				add(t.Off + 1 + r.Intn(len(t.Text)-1))
			}
		case 5:
			add(r.Intn(n + 1))
		case 6: // prefer interesting tokens
			for j := 0; j < 8; j++ {
				u := toks[r.Intn(len(toks))]
				if u.Kind == "str" || u.Kind == "com" || (u.Kind == "punct" && strings.ContainsAny(u.Text, "%<>#&|.({[")) || u.Text == "def" || u.Text == "class" {
					add(u.Off + 1 + r.Intn(len(u.Text)))
					break
				}
			}
		case 7:
			add(n - r.Intn(min(n, 12)))
		}
	}
	sort.Ints(out)
	return out
}

// ---- faults on the file (what a non-atomic save leaves on disk) ----------------------------

var faultKinds = []string{"F1-torn", "F2-nonl", "F3-badutf8", "F4-zerofill", "F5-halfoverwrite", "F6-flip", "F7-crlf"}

// ApplyFault returns the faulted content and the kind that actually fired ("" if none did).
func ApplyFault(kind string, src, other []byte, r *Rng) ([]byte, string) {
	n := len(src)
	switch kind {
	case "F1-torn":
		if n == 0 {
			return src, ""
		}
		cuts := BiasedCuts(src, r, 1)
		if len(cuts) == 0 {
			cuts = []int{r.Intn(n + 1)}
		}
		return append([]byte(nil), src[:cuts[0]]...), kind
	case "F2-nonl":
		t := []byte(strings.TrimRight(string(src), "\n \t"))
		if len(t) == n {
			return src, ""
		}
		return t, kind
	case "F3-badutf8":
		// cut inside a multi-byte rune, or splice a lone continuation / lead byte
		for i := 0; i < n; i++ {
			if src[i] >= 0xC0 {
				return append([]byte(nil), src[:i+1]...), kind
			}
		}
		k := r.Intn(n + 1)
		bad := [][]byte{{0xff}, {0xc3}, {0x80}, {0xe3, 0x81}, {0xf0, 0x9f}}[r.Intn(5)]
		out := append(append(append([]byte(nil), src[:k]...), bad...), src[k:]...)
		if r.Chance(1, 2) {
			out = out[:k+len(bad)]
		}
		return out, kind
	case "F4-zerofill":
		if n == 0 {
			return []byte{0, 0, 0, 0}, kind
		}
		k := r.Intn(n)
		out := append([]byte(nil), src...)
		m := r.Range(1, 16)
		if r.Chance(1, 2) { // zero-filled tail
			for i := k; i < n; i++ {
				out[i] = 0
			}
		} else { // NUL block in the middle
			for i := k; i < n && i < k+m; i++ {
				out[i] = 0
			}
		}
		return out, kind
	case "F5-halfoverwrite":
		if len(other) == 0 || n == 0 {
			return src, ""
		}
		k := r.Intn(min(len(other), n) + 1)
		out := append(append([]byte(nil), other[:k]...), src[min(k, n):]...)
		return out, kind
	case "F6-flip":
		if n == 0 {
			return src, ""
		}
		out := append([]byte(nil), src...)
		k := r.Intn(n)
		out[k] ^= 1 << uint(r.Intn(8))
		return out, kind
	case "F7-crlf":
		// the file as an editor with other line-ending habits left it: every line break CRLF,
		// only the lines up to some point (a save that was interrupted half-way through the
		// conversion), lone CR breaks, or a stray CR in front of some breaks
		if bytes.IndexByte(src, '\n') < 0 {
			return src, ""
		}
		mode := r.Intn(4)
		upto := n
		if mode == 1 {
			upto = r.Intn(n + 1)
		}
		var out []byte
		for i, b := range src {
			if b != '\n' || i >= upto {
				out = append(out, b)
				continue
			}
			switch mode {
			case 0, 1:
				out = append(out, '\r', '\n')
			case 2:
				out = append(out, '\r')
			default:
				if r.Chance(1, 3) {
					out = append(out, '\r', '\r', '\n')
				} else {
					out = append(out, '\n')
				}
			}
		}
		return out, kind
	}
	return src, ""
}

// ---- token-level mutation -----------------------------------------------------------------

func MutateTokens(src []byte, vocab []string, r *Rng, steps int) []byte {
	toks := Scan(src)
	for s := 0; s < steps && len(toks) > 0; s++ {
		i := r.Intn(len(toks))
		switch r.Intn(5) {
		case 0: // delete
			toks = append(toks[:i:i], toks[i+1:]...)
		case 1: // duplicate
			toks = append(toks[:i+1:i+1], toks[i:]...)
		case 2: // swap
			j := r.Intn(len(toks))
			toks[i], toks[j] = toks[j], toks[i]
		case 3: // insert from vocabulary
			t := Tok{Kind: "id", Text: r.Pick(vocab)}
			toks = append(toks[:i:i], append([]Tok{t}, toks[i:]...)...)
		case 4: // replace
			toks[i] = Tok{Kind: "id", Text: r.Pick(vocab)}
		}
	}
	return Join(toks)
}

// edgeLiterals are literals at the edge of what the lexer's number, string and symbol
// paths accept: beyond int64, beyond float64, non-ASCII digits, odd radix and separators.
var edgeLiterals = []string{
	"0xFF", "0b1010", "1_000", "-5", "+3", "0o17", "0777",
	// radix literals at the int64 / uint64 boundaries
	"0x7FFFFFFFFFFFFFFF", "0x8000000000000000", "0xFFFFFFFFFFFFFFFF", "0x10000000000000000", "0xFFFFFFFFFFFFFFFFFFFF",
	"0b111111111111111111111111111111111111111111111111111111111111111", "0b1000000000000000000000000000000000000000000000000000000000000000",
	"0o777777777777777777777", "0o1777777777777777777777", "0o2000000000000000000000", "-0x8000000000000000", "0X1F", "0B11", "0O17", "0d19", "0x_1", "0x1_F",
	"9223372036854775807", "9223372036854775808", "18446744073709551615", "123456789012345678901234567890",
	"-9223372036854775809", "1e400", "1.5e-400", "1.7976931348623157e309", "0.0000000000000000000000001",
	"1__2", "1_", "0x", "0b", "0xZZ", "1.2.3", "1..", "12abc", "\u0661\u0662\u0663", "\uff11\uff12", "3.", ".5",
	":\"quoted sym\"", ":+", ":[]", ":a?", "?a", "%i[a b]", "%q(x)", "%Q{y}", "%r{z}", "%s(w)", "%x(ls)", "`ls`",
	"''", "\"\"", "\"\\\"\"", "'\\''", "\"#{}\"", "\"#{\"#{1}\"}\"",
	"__FILE__", "__LINE__", "$0", "$stdout", "@@cv", "@", "$", "::", "A::B::C", "->(x) { x }", "&:sym", "**opts", "*", "**",
}

// Vocabulary collects the distinct non-trivial token texts of a corpus.
func Vocabulary(programs [][]byte) []string {
	seen := map[string]bool{}
	for _, p := range programs {
		for _, t := range Scan(p) {
			if t.Kind == "ws" || len(t.Text) > 24 {
				continue
			}
			seen[t.Text] = true
		}
	}
	for _, e := range edgeLiterals {
		seen[e] = true
	}
	out := make([]string, 0, len(seen))
	for s := range seen {
		out = append(out, s)
	}
	sort.Strings(out)
	return out
}

// ---- grammar-based program generator -------------------------------------------------------

type BuiltinMethod struct {
	Class    string
	Name     string
	Static   bool
	MinArgs  int
	MaxArgs  int
	HasBlock bool
}

type Gen struct {
	r        *Rng
	sb       strings.Builder
	ind      int
	builtins []BuiltinMethod
	classes  []string
	methods  []string
	vars     []string
	ties     bool // steer toward name collisions (C05)
	depth    int
}

// (some names differ only in case, or collide with configured classes once a namespace is dropped)
var genClassNames = []string{"Foo", "Bar", "Baz", "Qux", "Node", "Item", "User", "Acct", "Json", "JSON", "Http", "HTTP", "Io", "IO"}
var genMethodNames = []string{"run", "call", "name", "value", "size", "build", "each_item", "to_s", "calc", "test", "x", "y"}
var genVarNames = []string{"a", "b", "c", "x", "y", "n", "s", "arr", "h", "obj", "res", "tmp"}

func (g *Gen) line(s string) {
	g.sb.WriteString(strings.Repeat("  ", g.ind))
	g.sb.WriteString(s)
	g.sb.WriteByte('\n')
}

func (g *Gen) lit() string {
	switch g.r.Intn(12) {
	case 0:
		return fmt.Sprint(g.r.Intn(100))
	case 1:
		return fmt.Sprintf("%d.%d", g.r.Intn(10), g.r.Intn(100))
	case 2:
		return `"` + g.r.Pick([]string{"abc", "", "hello world", "a#{1}b", "x\\ny", "日本", "two\nlines", "dos\r\nline", "mac\rline", "tab\there", "a:::b", "%x:::y", "@z"}) + `"`
	case 3:
		return "'" + g.r.Pick([]string{"q", "it''s", "w w"}) + "'"
	case 4:
		return ":" + g.r.Pick(genVarNames)
	case 5:
		return g.r.Pick([]string{"true", "false", "nil"})
	case 6:
		return "[" + g.exprList(g.r.Intn(4)) + "]"
	case 7:
		n := g.r.Intn(3)
		var kv []string
		for i := 0; i < n; i++ {
			if g.r.Chance(1, 2) {
				kv = append(kv, g.r.Pick(genVarNames)+": "+g.atom())
			} else {
				kv = append(kv, g.atom()+" => "+g.atom())
			}
		}
		return "{" + strings.Join(kv, ", ") + "}"
	case 8:
		return fmt.Sprintf("%d..%d", g.r.Intn(5), g.r.Intn(20))
	case 9:
		return "%w[" + g.r.Pick([]string{"a b c", "", "x"}) + "]"
	case 10:
		return g.r.Pick(edgeLiterals)
	}
	return "1"
}

func (g *Gen) atom() string {
	switch g.r.Intn(6) {
	case 0, 1:
		if len(g.vars) > 0 {
			return g.r.Pick(g.vars)
		}
	case 2:
		if len(g.classes) > 0 && g.r.Chance(1, 2) {
			return g.r.Pick(g.classes) + ".new"
		}
	}
	return g.lit()
}

func (g *Gen) exprList(n int) string {
	var xs []string
	for i := 0; i < n; i++ {
		xs = append(xs, g.expr())
	}
	return strings.Join(xs, ", ")
}

func (g *Gen) builtinCall() string {
	if len(g.builtins) == 0 {
		return g.atom()
	}
	m := g.builtins[g.r.Intn(len(g.builtins))]
	recv := m.Class
	if !m.Static {
		switch m.Class {
		case "Integer":
			recv = fmt.Sprint(g.r.Intn(50))
		case "Float":
			recv = "1.5"
		case "String":
			recv = `"str"`
		case "Array":
			recv = "[1, 2, 3]"
		case "Hash":
			recv = "{a: 1}"
		case "Symbol":
			recv = ":sym"
		case "Range":
			recv = "(1..3)"
		case "NilClass":
			recv = "nil"
		case "", "Kernel":
			recv = ""
		default:
			recv = m.Class + ".new"
		}
	}
	n := m.MinArgs
	switch g.r.Intn(6) {
	case 0:
		n = m.MinArgs - 1
	case 1:
		n = m.MaxArgs + 1
	case 2:
		if m.MaxArgs > m.MinArgs {
			n = g.r.Range(m.MinArgs, min(m.MaxArgs, m.MinArgs+3))
		}
	}
	if n < 0 {
		n = 0
	}
	if n > 5 {
		n = 5
	}
	call := m.Name
	if recv != "" {
		call = recv + "." + m.Name
	}
	if n > 0 || g.r.Chance(1, 5) {
		call += "(" + g.exprList(n) + ")"
	}
	if m.HasBlock && g.r.Chance(2, 3) {
		call += " { |e| " + g.r.Pick([]string{"e", "p e", "e.to_s", "e + 1"}) + " }"
	}
	return call
}

func (g *Gen) expr() string {
	g.depth++
	defer func() { g.depth-- }()
	if g.depth > 3 {
		return g.atom()
	}
	switch g.r.Intn(14) {
	case 0, 1:
		return g.atom()
	case 2:
		return g.atom() + " " + g.r.Pick([]string{"+", "-", "*", "/", "==", "<", ">", "&&", "||", "<<", "%", "<=>", "!="}) + " " + g.atom()
	case 3, 4:
		return g.builtinCall()
	case 5:
		if len(g.methods) > 0 {
			return g.r.Pick(g.methods) + "(" + g.exprList(g.r.Intn(3)) + ")"
		}
	case 6:
		return g.atom() + "." + g.r.Pick(genMethodNames)
	case 7:
		return g.atom() + "[" + g.atom() + "]"
	case 8:
		return g.atom() + " ? " + g.atom() + " : " + g.atom()
	case 9:
		return "(" + g.expr() + ")"
	case 10:
		return g.atom() + ".each do |" + g.r.Pick(genVarNames) + "| " + g.atom() + " end"
	case 11:
		return g.atom() + "&." + g.r.Pick(genMethodNames)
	case 12:
		return "!" + g.atom()
	}
	if g.r.Chance(1, 14) {
		// constants and namespaces that may or may not exist
		return g.r.Pick([]string{"Js::X", "Nope::Thing", "Json", "JSON", "HTTP::Get", "Foo::Bar", "::Object", "Math::PI", "Unknown"})
	}
	if g.r.Chance(1, 6) && len(g.vars) > 0 {
		// an assignment is an expression too: (a = {x: 1}) as a value re-types a variable in the
		// middle of the statement that uses it
		return "(" + g.r.Pick(g.vars) + " = " + g.lit() + ")"
	}
	return g.atom()
}

func (g *Gen) params() string {
	n := g.r.Intn(4)
	var ps []string
	for i := 0; i < n; i++ {
		v := g.r.Pick(genVarNames)
		dup := false
		for _, p := range ps {
			if strings.HasPrefix(strings.TrimLeft(p, "*&"), v) {
				dup = true
			}
		}
		if dup {
			continue
		}
		switch g.r.Intn(8) {
		case 0:
			ps = append(ps, v+" = "+g.lit())
		case 1:
			ps = append(ps, v+":")
		case 2:
			ps = append(ps, v+": "+g.lit())
		case 3:
			ps = append(ps, "*"+v)
		case 4:
			ps = append(ps, "&"+v)
		default:
			ps = append(ps, v)
		}
		g.vars = append(g.vars, v)
	}
	if len(ps) == 0 && g.r.Chance(1, 2) {
		return ""
	}
	return "(" + strings.Join(ps, ", ") + ")"
}

func (g *Gen) stmt() {
	g.depth++
	defer func() { g.depth-- }()
	k := g.r.Intn(22)
	if g.depth > 3 && k >= 6 {
		k = g.r.Intn(6)
	}
	switch k {
	case 0, 1, 2:
		v := g.r.Pick(genVarNames)
		if g.r.Chance(1, 6) {
			v = "@" + v
		}
		g.line(v + " = " + g.expr())
		g.vars = append(g.vars, v)
	case 3:
		g.line(g.r.Pick([]string{"p ", "puts ", "print "}) + g.expr())
	case 4:
		if len(g.vars) > 0 && g.r.Chance(1, 2) {
			// element / attribute assignment and compound updates of an existing variable
			v := g.r.Pick(g.vars)
			switch g.r.Intn(4) {
			case 0:
				g.line(v + "[" + g.atom() + "] = " + g.expr())
			case 1:
				g.line(v + "[" + g.r.Pick([]string{":k", ":missing", "0", "-1", "\"s\"", "1..2"}) + "] " + g.r.Pick([]string{"=", "+=", "||="}) + " " + g.expr())
			case 2:
				g.line(v + "." + g.r.Pick(genVarNames) + " = " + g.expr())
			default:
				g.line(v + " = " + g.lit()) // the variable changes its type
			}
			return
		}
		g.line(g.expr())
	case 5:
		g.line("# " + g.r.Pick([]string{"comment", "ti-doc: documented", "ti-for-llm: note", "TODO \"quote", ""}))
	case 6:
		if len(g.vars) > 0 && g.r.Chance(1, 4) {
			// a local and the instance variable of the same name, narrowed by one condition
			v := strings.TrimPrefix(g.r.Pick(g.vars), "@")
			g.line(g.r.Pick([]string{"if ", "unless "}) + v + g.r.Pick([]string{".nil?", ".is_a?(Integer)", ""}) + g.r.Pick([]string{" && ", " || "}) + "@" + v + g.r.Pick([]string{".nil?", ".is_a?(String)", ""}))
			g.block(1)
			g.line("else")
			g.line("  p " + v + " + 1, @" + v)
			g.line("end")
			return
		}
		g.line(g.r.Pick([]string{"if ", "unless "}) + g.expr())
		g.block(1 + g.r.Intn(2))
		if g.r.Chance(1, 2) {
			if g.r.Chance(1, 2) {
				g.line("elsif " + g.expr())
				g.block(1)
			}
			g.line("else")
			g.block(1)
		}
		g.line("end")
	case 7:
		g.line(g.r.Pick([]string{"while ", "until "}) + g.expr())
		g.block(1 + g.r.Intn(2))
		g.line("end")
	case 8:
		g.line("case " + g.atom())
		for i := 0; i < 1+g.r.Intn(2); i++ {
			if g.r.Chance(1, 2) {
				g.line("when " + g.exprList(1+g.r.Intn(2)))
			} else {
				g.line("in " + g.r.Pick([]string{"Integer", "String", "[a, b]", "{name:}", "nil", "1..3", "x if x > 1", "[Integer, *rest]", "{k: Integer => v}"}))
			}
			g.block(1)
		}
		if g.r.Chance(1, 2) {
			g.line("else")
			g.block(1)
		}
		g.line("end")
	case 9, 10:
		g.def(false)
	case 11:
		g.class()
	case 12:
		g.line("begin")
		g.block(1)
		g.line("rescue" + g.r.Pick([]string{"", " => e", " StandardError => e", " RuntimeError"}))
		g.block(1)
		if g.r.Chance(1, 3) {
			g.line("ensure")
			g.block(1)
		}
		g.line("end")
	case 13:
		g.line(g.atom() + ".each do |" + g.r.Pick(genVarNames) + g.r.Pick([]string{"", ", i"}) + "|")
		g.block(1 + g.r.Intn(2))
		g.line("end")
	case 14:
		g.line(g.r.Pick(genVarNames) + " = <<~" + "TXT")
		g.line("  heredoc #{" + g.atom() + "} body")
		g.line("TXT")
	case 15:
		g.line("=begin")
		g.line("block comment")
		g.line("=end")
	case 16:
		g.line("return " + g.expr())
	case 17:
		g.line(g.r.Pick(genVarNames) + " " + g.r.Pick([]string{"+=", "-=", "||=", "<<", "*="}) + " " + g.atom())
	case 18:
		g.line(g.r.Pick([]string{"a, b = 1, 2", "a, *b = [1, 2, 3]", "x = y = 0", "yield", "yield(1)", "super", "next", "break", "self"}))
	case 19:
		g.line("for " + g.r.Pick(genVarNames) + " in " + g.atom())
		g.block(1)
		g.line("end")
	case 20:
		g.line(g.r.Pick([]string{"A", "B", "MAX", "Limit"}) + " = " + g.lit())
	case 21:
		g.line(g.expr() + " " + g.r.Pick([]string{"if", "unless", "while"}) + " " + g.expr())
	}
}

func (g *Gen) block(n int) {
	g.ind++
	for i := 0; i < n; i++ {
		g.stmt()
	}
	g.ind--
}

// docText draws the text of a documentation comment: the editor modes print it inside their
// records, so length (folding), multi-byte characters and characters that mean something in
// a record all matter.
func docText(r *Rng) string {
	words := [][]string{
		{"returns", "the", "value", "of", "this", "item", "when", "called", "twice", "in", "a", "row"},
		{"日本語の", "説明文", "です", "この", "メソッドは", "値を", "返します", "長い", "文章", "テスト"},
		{"renvoie", "l’élément", "précédent", "—", "déjà", "calculé", "où", "ça", "été", "naïve"},
	}[r.Intn(3)]
	n := []int{1, 3, 8, 20, 45, 90}[r.Intn(6)]
	var ws []string
	for i := 0; i < n; i++ {
		ws = append(ws, r.Pick(words))
		if r.Chance(1, 12) {
			ws = append(ws, r.Pick([]string{":::", "%", "<CR>", "\\n", "\"q\"", "@x", "$", "\t", "#{1}", "*", "ti-doc:"}))
		}
	}
	return strings.Join(ws, r.Pick([]string{" ", " ", " ", "  ", ""}))
}

func (g *Gen) def(inClass bool) {
	name := g.r.Pick(genMethodNames)
	if g.r.Chance(1, 5) {
		for k := 0; k < 1+g.r.Intn(2); k++ {
			g.line("# ti-doc: " + docText(g.r))
		}
	}
	head := "def "
	if inClass && g.r.Chance(1, 4) {
		head += "self."
	}
	saved := len(g.vars)
	if g.r.Chance(1, 8) {
		g.line(head + name + g.params() + " = " + g.expr())
	} else {
		g.line(head + name + g.params())
		g.block(1 + g.r.Intn(3))
		g.line("end")
	}
	g.vars = g.vars[:saved]
	if !inClass {
		g.methods = append(g.methods, name)
	}
}

func (g *Gen) class() {
	name := g.r.Pick(genClassNames)
	kind := "class "
	if g.r.Chance(1, 4) {
		kind = "module "
	}
	head := kind + name
	if kind == "class " && len(g.classes) > 0 && g.r.Chance(1, 3) {
		head += " < " + g.r.Pick(g.classes)
	}
	g.line(head)
	g.ind++
	n := 1 + g.r.Intn(4)
	for i := 0; i < n; i++ {
		switch g.r.Intn(9) {
		case 0:
			g.line(g.r.Pick([]string{"attr_reader", "attr_accessor", "attr_writer"}) + " :" + g.r.Pick(genVarNames))
		case 1:
			if len(g.classes) > 0 {
				g.line(g.r.Pick([]string{"include ", "extend "}) + g.r.Pick(g.classes))
			}
		case 2:
			g.line(g.r.Pick([]string{"private", "protected", "public"}))
		case 3:
			g.line("def initialize" + g.params())
			g.block(1)
			g.line("end")
		case 4:
			if g.depth < 2 {
				g.depth++
				g.class()
				g.depth--
			}
		default:
			g.def(true)
		}
	}
	g.ind--
	g.line("end")
	g.classes = append(g.classes, name)
}

// Generate returns one seeded program.
func Generate(r *Rng, builtins []BuiltinMethod, ties bool) []byte {
	g := &Gen{r: r, builtins: builtins, ties: ties}
	n := 2 + r.Intn(10)
	if ties {
		// the same method names in several classes / frames / as self. and instance methods
		shared := []string{r.Pick(genMethodNames), r.Pick(genMethodNames)}
		for c := 0; c < 2+r.Intn(3); c++ {
			cn := genClassNames[(r.Intn(3)+c*2)%len(genClassNames)]
			if r.Chance(1, 3) {
				g.line("module " + r.Pick([]string{"Outer", "Ns"}))
				g.ind++
			}
			head := "class " + cn
			if len(g.classes) > 0 && r.Chance(1, 2) {
				head += " < " + r.Pick(g.classes)
			}
			g.line(head)
			g.ind++
			if len(g.classes) > 0 && r.Chance(1, 3) {
				g.line("include " + r.Pick(g.classes))
			}
			for _, m := range shared {
				if r.Chance(1, 3) {
					if r.Chance(1, 3) {
						g.line("# ti-doc: " + docText(r))
					} else {
						g.line("# ti-doc: " + m + " of " + cn)
					}
				}
				g.line("def " + r.Pick([]string{"", "", "self."}) + m + g.params())
				g.block(1)
				g.line("end")
			}
			g.ind--
			g.line("end")
			if g.ind > 0 {
				g.ind--
				g.line("end")
			}
			g.classes = append(g.classes, cn)
		}
		for _, m := range shared {
			g.line("def " + m + g.params())
			g.block(1)
			g.line("end")
			g.methods = append(g.methods, m)
		}
		for _, c := range g.classes {
			g.line(c + ".new." + r.Pick(shared))
			g.line(c + "." + r.Pick(shared))
		}
	}
	for i := 0; i < n; i++ {
		g.stmt()
	}
	return []byte(g.sb.String())
}
