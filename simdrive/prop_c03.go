package main

import (
	"encoding/json"
	"fmt"
	"strings"
	"unicode/utf8"
)

// C03: lex-stream engine. EOF is injected at every rune position of each sampled text
// (enumeration happens inside the lexsim node, see lexsim/lexsim.go).

func init() {
	oracles["C03"] = func() Oracle { return &lexStream{} }
	nodeGates["C03"] = lexGate
}

// lexGate: the instrumented lex-stream node must report exactly what the same driver
// reports over the uninstrumented reader / lexer / parser of the same tree.
func lexGate(c *Ctx) gateResult {
	o := &lexStream{}
	plain := NewPool(c.World, map[string]string{"lexsim": c.RealBins["lexsim"]}, 1)
	defer plain.Close()
	var g gateResult
	for i := 0; i < 30; i++ {
		cs := o.Make(c, 2_000_000+i)
		a := c.RunStep(c.Pool.One(), cs, 0, 400_000_000, false)
		var rep lexReport
		json.Unmarshal(a.Extra, &rep)
		if a.Status != "exit" || rep.NFindings > 0 {
			g.Skipped++ // the instrumented node found a hang or a panic: Explore reports it
			continue
		}
		b := c.RunStep(plain.One(), cs, 0, 400_000_000, false)
		if b.Status != "exit" {
			g.Skipped++
			break // the plain node has no tick budget; do not wait for it again
		}
		if string(a.Extra) != string(b.Extra) {
			infra("fidelity gate (C03): instrumented and plain lexer disagree on text %d:\n sim  %s\n real %s", i, shortStr(a.Extra, 400), shortStr(b.Extra, 400))
		}
		g.Compared++
	}
	return g
}

type lexStream struct{ n int }

func (o *lexStream) Init(c *Ctx) {
	if c.Tier == "quick" {
		o.n = 20000
	} else {
		o.n = 150000
	}
}
func (o *lexStream) NCases(string) int { return o.n }
func (o *lexStream) Rule() string {
	return "a case is one text (corpus window | generated | token-mutated | adversarial alphabet | NUL / invalid-UTF-8 / non-ASCII-space injection); inside the node EOF is injected at EVERY rune position of the text (exhaustive per text) and three passes run per prefix (Advance loop, sentinel pass, Parser.Read loop). evaluations counts node runs; prefixes counts (text, cut) pairs; distinct = distinct (last-token kind before the cut, injected fault) cells"
}
func (o *lexStream) ExpectedFaults() []string {
	return []string{"eof-every-position", "nul-injected", "badutf8-injected", "unicode-space-injected", "line-endings-converted"}
}

var advAlphabets = []string{
	"\"'`\\ ab\n",
	"%<>#&|.-+= a1\n",
	"0123456789_.xob-+e \n",
	"0xXbBoOdDfF78_9 \n",
	"\uff11\u0661\u0969\u00b2\u2460 1a.\n",
	":\"a b'c\n",
	"<<~-TXTA \n",
	"%wiIqQrsx[](){}<>| a\n",
	"#{}\"$@ a\n",
	"=begin=end \n",
	"?!:;,^~*/ \n",
	"def end class do | a ( ) \n",
	"\\\r\n\t a1\"",
	"\r\n#=a 'b\n",
	"=begin\n=end x\n",
	"_END_\n= ",
	"\u00a0\u3000\u2028\ufeff a.\n",
	"@$:?a1. \n",
	"-+*/<>=!&|^~% 1a\n",
}

type lexPayload struct {
	Text []byte `json:"text"`
	Cuts string `json:"cuts"`
}

type lexFinding struct {
	Cut    int    `json:"cut"`
	Kind   string `json:"kind"`
	Detail string `json:"detail"`
}

type lexReport struct {
	Prefixes  int          `json:"prefixes"`
	Tokens    int          `json:"tokens"`
	MaxCalls  int          `json:"max_calls"`
	Findings  []lexFinding `json:"findings"`
	NFindings int          `json:"n_findings"`
	Current   int          `json:"current_cut"`
}

func (o *lexStream) Make(c *Ctx, i int) *Case {
	r := Stream(c.Seed, "C03", i, "case")
	cs := &Case{Prop: "C03", Kind: "lex", Index: i, Cfg: "none", Meta: map[string]string{}}
	var text []byte
	switch k := r.Intn(20); {
	case k < 6:
		p := c.Corpus[r.Intn(len(c.Corpus))]
		text = p.Src
		cs.Meta["origin"] = "corpus:" + p.Name
	case k < 9:
		text = Generate(r, c.Builtins, false)
		cs.Meta["origin"] = "generated"
	case k < 13:
		p := c.Corpus[r.Intn(len(c.Corpus))]
		text = MutateTokens(p.Src, c.Vocab, r, 1+r.Intn(5))
		cs.Meta["origin"] = "mutated:" + p.Name
	default:
		al := []rune(advAlphabets[r.Intn(len(advAlphabets))])
		n := r.Range(1, 40)
		var sb strings.Builder
		for j := 0; j < n; j++ {
			sb.WriteRune(al[r.Intn(len(al))])
		}
		text = []byte(sb.String())
		cs.Meta["origin"] = "adversarial"
	}
	// keep the quadratic enumeration affordable: a window of at most ~360 bytes
	if len(text) > 360 {
		start := r.Intn(len(text) - 360)
		for start > 0 && text[start-1] != '\n' {
			start--
		}
		text = text[start:min(len(text), start+360)]
		for len(text) > 0 && !utf8.Valid(text) && !utf8.RuneStart(text[0]) {
			text = text[1:]
		}
	}
	cs.Faults = append(cs.Faults, "eof-every-position")
	switch r.Intn(9) {
	case 3:
		if t, fired := ApplyFault("F7-crlf", text, nil, r); fired != "" {
			text = t
			cs.Faults = append(cs.Faults, "line-endings-converted")
		}
	case 0:
		k := r.Intn(len(text) + 1)
		text = append(append(append([]byte(nil), text[:k]...), 0), text[k:]...)
		cs.Faults = append(cs.Faults, "nul-injected")
	case 1:
		k := r.Intn(len(text) + 1)
		bad := [][]byte{{0xff}, {0xc3}, {0x80}, {0xe3, 0x81}, {0xf0, 0x9f, 0x98}}[r.Intn(5)]
		text = append(append(append([]byte(nil), text[:k]...), bad...), text[k:]...)
		cs.Faults = append(cs.Faults, "badutf8-injected")
	case 2:
		k := r.Intn(len(text) + 1)
		sp := []string{"\u00a0", "\u3000", "\u2003", "\u0085", "\ufeff", "\v", "\f", "\r"}[r.Intn(8)]
		text = append(append(append([]byte(nil), text[:k]...), []byte(sp)...), text[k:]...)
		cs.Faults = append(cs.Faults, "unicode-space-injected")
	}
	pl, _ := json.Marshal(lexPayload{Text: text, Cuts: "all"})
	cs.Steps = []Step{{Node: "lexsim", Argv: []string{}, Sched: "canon", Paylod: pl}}
	return cs
}

func lastRuneClass(p []byte) string {
	if len(p) == 0 {
		return "empty"
	}
	r, _ := utf8.DecodeLastRune(p)
	switch {
	case r == 0:
		return "NUL"
	case r == utf8.RuneError:
		return "U+FFFD"
	case r == '\n':
		return "\\n"
	case r > 0x7f:
		return "non-ascii"
	case r >= 'a' && r <= 'z', r >= 'A' && r <= 'Z', r == '_':
		return "letter"
	case r >= '0' && r <= '9':
		return "digit"
	case r == ' ' || r == '\t':
		return "space"
	}
	return string(r)
}

func (o *lexStream) Judge(c *Ctx, w *Worker, cs *Case) *Finding {
	var pl lexPayload
	json.Unmarshal(cs.Steps[0].Paylod, &pl)
	res := c.RunStep(w, cs, 0, 400_000_000, false)
	var rep lexReport
	if len(res.Extra) > 0 {
		json.Unmarshal(res.Extra, &rep)
	}
	c.Stats.Add("prefixes", rep.Prefixes)
	c.Stats.Add("tokens", rep.Tokens)
	c.Stats.Inc("status:" + res.Status)
	for _, t := range Scan(pl.Text) {
		c.Stats.Cell(t.Kind + "|" + strings.Join(cs.Faults[1:], ","))
		if t.Kind == "punct" {
			c.Stats.Cell("punct:" + t.Text)
		}
	}
	switch res.Status {
	case "exit":
	case "panic":
		at := "?"
		if len(res.PanicAt) > 0 {
			at = res.PanicAt[0]
		}
		return &Finding{Sig: "lex:panic:" + res.Panic + "@" + at, What: fmt.Sprintf("panic while lexing prefix of %d bytes: %s", rep.Current, firstLine(res.PanicS))}
	default:
		return &Finding{Sig: "lex:" + res.Status + "@" + res.HangAt, What: fmt.Sprintf("node ended with %s at cut %d", res.Status, rep.Current)}
	}
	if rep.NFindings == 0 {
		return nil
	}
	// the smallest failing prefix names the finding
	f := rep.Findings[0]
	for _, g := range rep.Findings {
		if g.Cut < f.Cut {
			f = g
		}
	}
	prefix := pl.Text[:min(f.Cut, len(pl.Text))]
	sig := "lex:" + f.Kind
	switch f.Kind {
	case "hang":
		sig += "@" + f.Detail[strings.LastIndex(f.Detail, " ")+1:]
	default:
		sig += ":after-" + lastRuneClass(prefix)
	}
	cs.Meta["cut"] = fmt.Sprint(f.Cut)
	return &Finding{Sig: sig, What: fmt.Sprintf("%s at EOF position %d (prefix tail %q): %s; %d findings over %d prefixes of this text", f.Kind, f.Cut, tailStr(prefix, 24), f.Detail, rep.NFindings, rep.Prefixes)}
}

func (o *lexStream) Confirm(c *Ctx, cs *Case, f *Finding) (bool, string) {
	w := c.Pool.workers[len(c.Pool.workers)-1]
	g := o.Judge(c, w, cs)
	if g == nil || g.Sig != f.Sig {
		return false, "did not reproduce in a second simulator process"
	}
	return true, "reproduced identically in a second simulator process (the lexer and parser are driven through their public API; there is no separate binary to compare with)"
}

func (o *lexStream) Shrinks(c *Ctx, cs *Case) []*Case {
	var pl lexPayload
	json.Unmarshal(cs.Steps[0].Paylod, &pl)
	var out []*Case
	mk := func(text []byte, cuts string) {
		n := cloneCase(cs)
		b, _ := json.Marshal(lexPayload{Text: text, Cuts: cuts})
		n.Steps[0].Paylod = b
		out = append(out, n)
	}
	var cut int
	if _, err := fmt.Sscan(cs.Meta["cut"], &cut); err == nil && cut < len(pl.Text) {
		mk(pl.Text[:cut], "no")
	}
	if pl.Cuts == "all" {
		mk(pl.Text, "no")
	}
	for _, b := range shrinkBytes(pl.Text) {
		mk(b, pl.Cuts)
	}
	return out
}

func (o *lexStream) Describe(cs *Case) any {
	var pl lexPayload
	json.Unmarshal(cs.Steps[0].Paylod, &pl)
	return map[string]any{"origin": cs.Meta["origin"], "faults": cs.Faults, "bytes": len(pl.Text), "text": shortStr(pl.Text, 120), "eof_positions": utf8.RuneCount(pl.Text) + 1}
}

func (o *lexStream) Extra(cov map[string]any) {
	cov["eof_enumeration"] = "exhaustive per text: every rune boundary of every sampled text is an injected EOF position"
}
