package main

import (
	"bytes"
	"fmt"
	"regexp"
	"sort"
	"strings"
)

// ti-world engine: C01 (never crashes), C02 (terminates without the watchdog),
// C04 (editor query modes). One disk, one `ti` node, faults on the target file.

func init() {
	oracles["C01"] = func() Oracle { return &tiInput{prop: "C01"} }
	oracles["C02"] = func() Oracle { return &tiInput{prop: "C02"} }
	oracles["C04"] = func() Oracle { return &tiSession{} }
}

const target = "main.rb"

// A diagnostic or hint names the file it is about: the target or, when the scenario has a
// .ti-loader.json, one of the preloaded files (lib.rb, lib2.rb).
var reDiag = regexp.MustCompile(`^(main|lib|lib2)\.rb:::[0-9]+:::`)
var reHint = regexp.MustCompile(`^@(main|lib|lib2)\.rb:::[0-9]+:::`)

// withPreload adds a .ti-loader.json and one or two preloaded files to a disk image.
func withPreload(c *Ctx, r *Rng, files map[string][]byte, twinBias bool) {
	names := []string{"lib.rb"}
	if r.Chance(1, 3) {
		names = append(names, "lib2.rb")
	}
	if r.Chance(1, 6) {
		names = append(names, "missing.rb") // listed but absent: open errors are skipped silently
	}
	for _, n := range names {
		if n == "missing.rb" {
			continue
		}
		src, _ := pickProgram(c, r, false)
		if n == "lib.rb" && r.Chance(1, 6) {
			// a library of some size (8 to 26 KB, several hundred to two thousand lines):
			// preloading it takes a noticeable share of the watchdog's window, but the whole
			// analysis stays within a third of it on the tree as given (inputs are bounded;
			// a run that needs the full window because its input is huge is not a hang)
			var b []byte
			for want := r.Range(8, 26) << 10; len(b) < want; {
				b = append(b, c.Corpus[r.Intn(len(c.Corpus))].Src...)
				b = append(b, '\n')
			}
			src = b
		}
		if tgt, ok := files[target]; ok && (r.Chance(1, 3) || (twinBias && r.Chance(1, 2))) {
			// the preloaded file is a sibling of the target: the same program with its literals
			// resized and a few tokens changed, so the same constructs sit on the same rows of
			// both files (whatever the analysis remembers per row or per name meets its twin)
			src = resizeLiterals(tgt, r)
			if r.Chance(1, 2) {
				src = MutateTokens(src, c.Vocab, r, 1+r.Intn(3))
			}
		}
		if r.Chance(1, 4) {
			src, _ = ApplyFault("F1-torn", src, nil, r)
		}
		files[n] = src
	}
	files[".ti-loader.json"] = []byte(`{"preload":["` + strings.Join(names, `","`) + `"]}`)
}

var reDigits = regexp.MustCompile(`[0-9]+`)

var reFlatList = regexp.MustCompile(`\[[^\[\]\n]*,[^\[\]\n]*\]`)

// resizeLiterals shortens or lengthens the flat bracketed lists of a program (array literals,
// argument lists in brackets): same shape, same rows, other sizes.
func resizeLiterals(src []byte, r *Rng) []byte {
	return reFlatList.ReplaceAllFunc(src, func(m []byte) []byte {
		elems := strings.Split(string(m[1:len(m)-1]), ",")
		switch r.Intn(3) {
		case 0:
			elems = elems[:1+r.Intn(len(elems))]
		case 1:
			for k := r.Range(1, 30); k > 0; k-- {
				elems = append(elems, elems[r.Intn(len(elems))])
			}
		}
		return []byte("[" + strings.Join(elems, ",") + "]")
	})
}

func lineShape(l string) string {
	l = strings.ReplaceAll(l, target, "F")
	l = reDigits.ReplaceAllString(l, "N")
	if len(l) > 48 {
		l = l[:48]
	}
	return l
}

func splitLines(out []byte) []string {
	if len(out) == 0 {
		return nil
	}
	s := string(out)
	s = strings.TrimSuffix(s, "\n")
	return strings.Split(s, "\n")
}

// ---- sweep table (thorough tier): every byte prefix of every small program -----------------

type sweepEntry struct {
	prog int
	cut  int
	mode int
}

type tiInput struct {
	prop  string
	sweep []sweepEntry
	nRand int
}

func (o *tiInput) Init(c *Ctx) {
	switch c.Tier {
	case "quick":
		o.nRand = 14000
		// a deterministic slice of the exhaustive sweep rides along in the quick tier
		r := Stream(c.Seed, o.prop, 0, "quick-sweep")
		for k := 0; k < 12; k++ {
			pi := r.Intn(len(c.Corpus))
			if len(c.Corpus[pi].Src) > 400 {
				continue
			}
			for cut := 0; cut <= len(c.Corpus[pi].Src); cut++ {
				o.sweep = append(o.sweep, sweepEntry{pi, cut, cut % 2})
			}
		}
	default:
		o.nRand = 400000
		for pi, p := range c.Corpus {
			if len(p.Src) > 1536 {
				continue
			}
			for cut := 0; cut <= len(p.Src); cut++ {
				o.sweep = append(o.sweep, sweepEntry{pi, cut, 0}, sweepEntry{pi, cut, 1})
			}
		}
	}
}

func (o *tiInput) NCases(tier string) int { return len(o.sweep) + o.nRand }

func (o *tiInput) Rule() string {
	if o.prop == "C02" {
		return "cases = (program from corpus | seeded grammar | token mutation | cyclic-inheritance generator) x file fault (F1 torn at biased/every cut, F2 lost newline, F3 invalid UTF-8, F4 zero fill, F5 half overwrite, F6 bit flip) x mode (diagnostics, -i) x map-order schedule; a case is non-trivial when the node booted and read the faulted file; distinct = distinct (EOF-context | fault kind | cycle shape, mode) cells"
	}
	return "cases = (program from corpus | seeded grammar | token mutation) x file fault (F1 torn at biased/every cut, F2 lost newline, F3 invalid UTF-8, F4 zero fill, F5 half overwrite, F6 bit flip) x mode (diagnostics, -i) x map-order schedule; a case is non-trivial when the node booted and read the faulted file; distinct = distinct (EOF-context | fault kind, mode) cells"
}

func (o *tiInput) ExpectedFaults() []string { return faultKinds }

func pickProgram(c *Ctx, r *Rng, ties bool) ([]byte, string) {
	switch k := r.Intn(20); {
	case k >= 16 && r.Chance(1, 2):
		return shapedProgram(r)
	case k < 1:
		// a long file: several corpus programs back to back (size-dependent behaviour)
		var b []byte
		for n := r.Range(3, 9); n > 0 && len(b) < 14000; n-- {
			b = append(b, c.Corpus[r.Intn(len(c.Corpus))].Src...)
			if len(b) > 0 && b[len(b)-1] != '\n' {
				b = append(b, '\n')
			}
		}
		return b, "concatenated"
	case k < 10:
		p := c.Corpus[r.Intn(len(c.Corpus))]
		return p.Src, "corpus:" + p.Name
	case k < 15:
		return Generate(r, c.Builtins, ties), "generated"
	case k < 18:
		p := c.Corpus[r.Intn(len(c.Corpus))]
		return MutateTokens(p.Src, c.Vocab, r, 1+r.Intn(4)), "mutated:" + p.Name
	default:
		return MutateTokens(Generate(r, c.Builtins, ties), c.Vocab, r, 1+r.Intn(4)), "mutated:generated"
	}
}

// shapedProgram draws one of the generators for size- and shape-dependent behaviour.
// retypeProgram: a few variables that keep changing their type (array, hash, string, number,
// nil, object) between and inside the statements that index, update and call them.
func retypeProgram(r *Rng) []byte {
	var sb strings.Builder
	vars := []string{"a", "b", "h"}[:r.Range(1, 3)]
	lits := []string{"[1]", "[]", "{x: 1}", "{}", "\"s\"", "1", "1.5", "nil", ":s", "[[1, 2]]", "{a: {b: 1}}", "(1..3)", "Object.new"}
	for _, v := range vars {
		fmt.Fprintf(&sb, "%s = %s\n", v, r.Pick(lits))
	}
	idx := []string{"0", "-1", ":x", ":y", "\"k\"", "1..2", "nil"}
	if r.Chance(1, 6) {
		// a value wrapped in itself again and again: the type doubles with every line
		v := r.Pick(vars)
		form := r.Pick([]string{"%s = [%s, %s]", "%s = {a: %s, b: %s}", "%s = [%s] + [%s]", "%s = %s ? %s : [1]"})
		for k := r.Range(4, 26); k > 0; k-- {
			fmt.Fprintf(&sb, form+"\n", v, v, v)
		}
		fmt.Fprintf(&sb, "p %s\n", v)
		return []byte(sb.String())
	}
	for k := 0; k < r.Range(3, 10); k++ {
		v, w := r.Pick(vars), r.Pick(vars)
		if r.Chance(1, 2) {
			w = v // the statement re-types the very variable it is working on
		}
		switch r.Intn(9) {
		case 0:
			fmt.Fprintf(&sb, "%s = %s\n", v, r.Pick(lits))
		case 1:
			fmt.Fprintf(&sb, "%s[%s] = %s\n", v, r.Pick(idx), r.Pick(lits))
		case 2:
			fmt.Fprintf(&sb, "%s[%s] = (%s = %s)\n", v, r.Pick(idx), w, r.Pick(lits))
		case 3:
			fmt.Fprintf(&sb, "c%d = %s[%s]\n", k, v, r.Pick(idx))
		case 4:
			if r.Chance(1, 2) {
				fmt.Fprintf(&sb, "%s.%s(%s = %s)\n", v, r.Pick([]string{"push", "unshift", "concat", "merge", "store", "replace", "append"}), w, r.Pick(lits))
			} else {
				fmt.Fprintf(&sb, "%s << (%s = %s)\n", v, w, r.Pick(lits))
			}
		case 5:
			fmt.Fprintf(&sb, "%s[%s] %s %s\n", v, r.Pick(idx), r.Pick([]string{"+=", "||=", "<<"}), r.Pick(lits))
		case 6:
			switch r.Intn(3) {
			case 0:
				fmt.Fprintf(&sb, "%s.each { |e, f| %s = e }\n", v, w)
			case 1:
				// a literal of unlike elements, destructured and indexed inside the block
				fmt.Fprintf(&sb, "[%s, %s, %s].each do |k, v| k[%s] end\n", v, r.Pick(lits), r.Pick([]string{"p(a: 1)", "puts(1)", "x = 1", w}), r.Pick(idx))
			default:
				fmt.Fprintf(&sb, "x%d = p(%s)\n[x%d, %s].each do |k, v| p k[%s], v end\n", k, r.Pick([]string{"a: 1", "1", "[1]", v}), k, r.Pick(lits), r.Pick(idx))
			}
		case 7:
			fmt.Fprintf(&sb, "%s, %s = %s, %s[%s]\n", v, w, w, v, r.Pick(idx))
		default:
			fmt.Fprintf(&sb, "p %s[%s].%s\n", v, r.Pick(idx), r.Pick([]string{"size", "to_s", "foo", "first", "keys"}))
		}
	}
	return []byte(sb.String())
}

// unionProgram: values whose type is a union (either branch of a ternary, nil or something,
// an unknown or a hash, a user object or an array) and the things programs do with them: call
// a method only some members have, safe navigation, splats into literals, lookups afterwards.
func unionProgram(r *Rng) []byte {
	var sb strings.Builder
	sb.WriteString("class Table\n  def values\n    [1]\n  end\n  def keys\n    [:a]\n  end\n  def first\n    1\n  end\nend\n")
	// (weighted: collections, unknown values, nil and user objects are what unions are made of)
	members := []string{"nil", "nil", "{a: 1}", "{a: 1}", "{}", "{b: \"s\"}", "[1, 2]", "[\"a\", \"b\"]", "[]", "\"s\"", "1", "1.5", ":s",
		"opts[0]", "opts[0]", "cfg[:k]", "unknown_call", "unknown_call", "Table.new", "Table.new", "(1..3)", "true"}
	methods := []string{"values", "values", "keys", "keys", "merge({b: 2})", "first", "first", "size", "to_s", "upcase", "each { |e| p e }", "map { |e| e }",
		"foo", "foo", "abs", "[0]", "[:a]", "fetch(:a)", "push(1)", "+ 1", "nil?", "length", "dup", "values.first", "keys.size"}
	n := r.Range(2, 5)
	for k := 0; k < n; k++ {
		a, b := r.Pick(members), r.Pick(members)
		switch r.Intn(4) {
		case 0:
			fmt.Fprintf(&sb, "u%d = flag%d ? %s : %s\n", k, k, a, b)
		case 1:
			fmt.Fprintf(&sb, "u%d = %s\nu%d = %s if cond%d\n", k, a, k, b, k)
		case 2:
			fmt.Fprintf(&sb, "u%d = if c%d\n  %s\nelse\n  %s\nend\n", k, k, a, b)
		default:
			fmt.Fprintf(&sb, "u%d = %s || %s\n", k, a, b)
		}
		for j := 0; j < r.Range(3, 8); j++ {
			u := fmt.Sprintf("u%d", r.Intn(k+1))
			switch r.Intn(9) {
			case 0, 1:
				fmt.Fprintf(&sb, "r%d%d = %s.%s\n", k, j, u, strings.TrimPrefix(r.Pick(methods), "+ "))
			case 2, 8:
				fmt.Fprintf(&sb, "%s&.%s\n", u, strings.TrimPrefix(r.Pick(methods), "+ "))
			case 3:
				fmt.Fprintf(&sb, "h%d%d = {**%s, port: 8080}\nh%d%d[:%s]\nh%d%d.values\n", k, j, u, k, j, r.Pick([]string{"port", "zz", "a"}), k, j)
			case 4:
				fmt.Fprintf(&sb, "l%d%d = [*%s, 1]\nl%d%d.first.foo\n", k, j, u, k, j)
			case 5:
				fmt.Fprintf(&sb, "p %s %s\n", u, r.Pick([]string{"+ 1", "<< 2", "== nil", "|| 3"}))
			case 6:
				fmt.Fprintf(&sb, "case %s\nin {a: Integer => v}\n  p v\nin [x, *]\n  p x\nin nil\n  p 0\nend\n", u)
			default:
				fmt.Fprintf(&sb, "if %s.nil? && @%s.nil?\n  p 1\nelse\n  p %s + 1, @%s\nend\n", u, u, u, u)
			}
		}
	}
	if r.Chance(2, 3) {
		// the same statements as the body of a method whose parameters supply the flags and the
		// unknown values (parameters are untyped until a call says otherwise), then a call
		full := sb.String()
		i := strings.Index(full, "end\nend\n") + len("end\nend\n")
		head, body := full[:i], full[i:]
		var out strings.Builder
		out.WriteString(head)
		out.WriteString("def run(opts, cfg, flag0, flag1 = nil, flag2 = nil, flag3 = nil, flag4 = nil)\n")
		for _, l := range strings.Split(strings.TrimRight(body, "\n"), "\n") {
			out.WriteString("  " + l + "\n")
		}
		out.WriteString("end\n")
		if r.Chance(2, 3) {
			out.WriteString(r.Pick([]string{"run([1], {k: 1}, true)\n", "run(nil, nil, false, 1)\n", "x = run([{a: 1}], {}, true, false)\nx.foo\n"}))
		}
		return []byte(out.String())
	}
	return []byte(sb.String())
}

func shapedProgram(r *Rng) ([]byte, string) {
	if r.Chance(1, 3) {
		return retypeProgram(r), "retyping"
	}
	if r.Chance(1, 3) {
		return unionProgram(r), "unions"
	}
	switch r.Intn(4) {
	case 0:
		return hierarchyProgram(r), "hierarchy"
	case 1:
		return bigLiteralProgram(r), "big-literals"
	case 2:
		return aliasChainProgram(r), "alias-chains"
	default:
		return cyclicProgram(r), "cyclic"
	}
}

// hierarchyProgram builds deep and wide acyclic class / module hierarchies: chains, fans and
// diamonds (every module of a level includes several modules of the level below), up to 30
// levels, sometimes with names that collide with builtin frames and classes; then looks
// methods, variables and constants up through them.
func hierarchyProgram(r *Rng) []byte {
	var sb strings.Builder
	levels := r.Range(2, 30)
	width := r.Range(1, 3)
	if levels > 12 && width == 3 {
		width = 2
	}
	special := []string{"Builtin", "Kernel", "Object", "Comparable", "Integer", "String", "Enumerable"}
	name := func(l, w int) string {
		if l == 0 && r.Chance(1, 8) {
			return special[(w+levels)%len(special)]
		}
		return fmt.Sprintf("H%d%c", l, 'a'+w)
	}
	useClass := r.Chance(1, 3)
	full := r.Chance(1, 2) // every module includes every module of the level below
	for l := 0; l < levels; l++ {
		for w := 0; w < width; w++ {
			kind := "module"
			if useClass && w == 0 {
				kind = "class"
			}
			head := kind + " " + name(l, w)
			if kind == "class" && l > 0 {
				head += " < " + name(l-1, 0)
			}
			sb.WriteString(head + "\n")
			if l > 0 {
				for p := 0; p < width; p++ {
					if kind == "class" && p == 0 {
						continue
					}
					if full {
						sb.WriteString("  include " + name(l-1, p) + "\n")
					} else if r.Chance(3, 4) {
						sb.WriteString("  " + r.Pick([]string{"include", "include", "extend"}) + " " + name(l-1, p) + "\n")
					}
				}
			}
			switch r.Intn(6) {
			case 0:
				fmt.Fprintf(&sb, "  def m%d\n    @v%d = %d\n    v = @v%d\n    v\n  end\n", l, l, l, l)
			case 1:
				fmt.Fprintf(&sb, "  K%d = %d\n", l, l)
			case 2:
				fmt.Fprintf(&sb, "  def self.s%d(x)\n    x\n  end\n", l)
			case 3:
				// visibility sections: lookups that have to decide who may call what
				fmt.Fprintf(&sb, "  %s\n  def v%d\n    %d\n  end\n", r.Pick([]string{"protected", "private", "public"}), l, l)
			}
			sb.WriteString("end\n")
		}
	}
	top := name(levels-1, 0)
	// an unrelated class with protected / private methods, called from inside and outside
	// the hierarchy (the visibility check asks whether the caller descends from the owner)
	sb.WriteString("class Other\n  def pub\n    1\n  end\n  protected\n  def secret\n    2\n  end\n  private\n  def hidden\n    3\n  end\nend\n")
	fmt.Fprintf(&sb, "class Leaf\n  include %s\n  def go\n    q = 1\n    @w = q\n    m0\n    m%d\n    missing_one\n    o = Other.new\n    o.%s\n    v%d\n  end\nend\n", top, levels-1, r.Pick([]string{"secret", "hidden", "pub", "secret"}), r.Intn(levels))
	fmt.Fprintf(&sb, "x = Leaf.new\nx.go\nx.m%d\nLeaf::K0\nx.nope(1)\nx.v%d\nOther.new.secret\n", r.Intn(levels), r.Intn(levels))
	return []byte(sb.String())
}

// bigLiteralProgram: literals, parameter lists, call chains and nestings that are larger
// than anything in the corpus (fixed-size buffers, quadratic passes).
func bigLiteralProgram(r *Rng) []byte {
	var sb strings.Builder
	n := r.Range(15, 70)
	elems := func(k int, f func(i int) string) string {
		var xs []string
		for i := 0; i < k; i++ {
			xs = append(xs, f(i))
		}
		return strings.Join(xs, ", ")
	}
	switch r.Intn(8) {
	case 0:
		fmt.Fprintf(&sb, "a = [[%s]]\na.each do |k, v| puts k end\n", elems(n, func(i int) string { return fmt.Sprint(i) }))
	case 1:
		fmt.Fprintf(&sb, "a = [%s]\na.each { |x| p x }\nb = a.map { |x| x.to_s }\np b\n", elems(n, func(i int) string { return []string{"1", "'s'", ":s", "1.5", "nil", "[1]"}[i%6] }))
	case 2:
		fmt.Fprintf(&sb, "h = {%s}\nh.each do |k, v| p k end\np h[:k3]\n", elems(n, func(i int) string { return fmt.Sprintf("k%d: %d", i, i) }))
	case 3:
		fmt.Fprintf(&sb, "def many(%s)\n  p0\nend\nmany(%s)\nmany(1)\n", elems(n, func(i int) string { return fmt.Sprintf("p%d", i) }), elems(n, func(i int) string { return fmt.Sprint(i) }))
	case 4:
		sb.WriteString("x = 'a'" + strings.Repeat(".to_s", n) + "\np x\ny = 1" + strings.Repeat(".abs", n) + "\n")
	case 5:
		sb.WriteString("x = " + strings.Repeat("(", n) + "1" + strings.Repeat(")", n) + "\np x\ny = " + strings.Repeat("[", n) + strings.Repeat("]", n) + "\n")
	case 6:
		for i := 0; i < n/3+2; i++ {
			sb.WriteString(strings.Repeat("  ", i) + "if x" + fmt.Sprint(i) + "\n")
		}
		sb.WriteString(strings.Repeat("  ", n/3+2) + "p 1\n")
		for i := n/3 + 1; i >= 0; i-- {
			sb.WriteString(strings.Repeat("  ", i) + "end\n")
		}
	default:
		fmt.Fprintf(&sb, "a, %s = %s\np a\ns = \"%s\"\np s\n", elems(n/2, func(i int) string { return fmt.Sprintf("b%d", i) }), elems(n/2+1, func(i int) string { return fmt.Sprint(i) }), strings.Repeat("x#{1}", n))
	}
	return []byte(sb.String())
}

// aliasChainProgram: method bodies made of assignments between a few identifiers, defined
// or not yet defined, returning one of them (identifier chains, with tails and cycles).
func aliasChainProgram(r *Rng) []byte {
	var sb strings.Builder
	ids := []string{"w", "x", "y", "z", "u"}[:r.Range(2, 5)]
	for d := 0; d < r.Range(1, 3); d++ {
		fmt.Fprintf(&sb, "def a%d\n", d)
		if r.Chance(1, 2) {
			// a functional graph over the identifiers (every identifier is assigned exactly one
			// other identifier): such graphs are made of cycles with tails leading into them.
			// The assignments are emitted in a drawn order, so some right-hand sides are still
			// unknown names when they are used and others already hold a value.
			order := append([]string(nil), ids...)
			for k := len(order) - 1; k > 0; k-- {
				j := r.Intn(k + 1)
				order[k], order[j] = order[j], order[k]
			}
			for _, lhs := range order {
				fmt.Fprintf(&sb, "  %s = %s\n", lhs, r.Pick(ids))
			}
		} else {
			for k := 0; k < r.Range(2, 7); k++ {
				rhs := r.Pick(ids)
				if r.Chance(1, 6) {
					rhs = r.Pick([]string{"1", "'s'", "nil", "a0", "a1"})
				}
				fmt.Fprintf(&sb, "  %s = %s\n", r.Pick(ids), rhs)
			}
		}
		fmt.Fprintf(&sb, "  %s\nend\n", r.Pick(ids))
	}
	sb.WriteString("p a0\nq = a0\nq.foo\n")
	return []byte(sb.String())
}

// cyclicProgram builds inheritance / include / extend cycles of length 1..4 plus lookups.
func cyclicProgram(r *Rng) []byte {
	n := 1 + r.Intn(4)
	names := []string{"Ca", "Cb", "Cc", "Cd"}[:n]
	var sb strings.Builder
	viaInclude := r.Chance(1, 3)
	// half of the time the cycle lives inside a namespace (unqualified parent names then
	// resolve relative to the module) and is used from a method body
	nested := r.Chance(1, 2)
	if nested {
		sb.WriteString("module App\n")
	}
	for i, nm := range names {
		next := names[(i+1)%n]
		kind := "class"
		if viaInclude && r.Chance(1, 2) {
			kind = "module"
		}
		if !viaInclude && kind == "class" {
			fmt.Fprintf(&sb, "class %s < %s\n", nm, next)
		} else {
			fmt.Fprintf(&sb, "%s %s\n  %s %s\n", kind, nm, r.Pick([]string{"include", "extend"}), next)
		}
		switch r.Intn(5) {
		case 0:
			sb.WriteString("  def foo\n    @v = 1\n    bar\n  end\n")
		case 1:
			sb.WriteString("  K = 1\n  def self.make\n    new\n  end\n")
		case 2:
			sb.WriteString("  attr_reader :v\n")
		case 3:
			sb.WriteString("  def info(m)\n    m\n    self.info(1)\n  end\n")
		}
		sb.WriteString("end\n")
	}
	if nested {
		sb.WriteString("end\n")
		for i := range names {
			names[i] = "App::" + names[i]
		}
	}
	for _, nm := range names {
		switch r.Intn(5) {
		case 0:
			fmt.Fprintf(&sb, "%s.new.foo\n", nm)
		case 1:
			fmt.Fprintf(&sb, "%s.new.missing(1)\n", nm)
		case 2:
			fmt.Fprintf(&sb, "%s::K\n", nm)
		case 3:
			fmt.Fprintf(&sb, "x = %s.new\nx.v\nx.zork\n", nm)
		case 4:
			fmt.Fprintf(&sb, "%s.make.bar\n", nm)
		}
	}
	return []byte(sb.String())
}

func (o *tiInput) Make(c *Ctx, i int) *Case {
	cs := &Case{Prop: o.prop, Kind: "input", Index: i, Cfg: "shipped-test", Meta: map[string]string{}}
	var content []byte
	mode := 0
	r := Stream(c.Seed, o.prop, i, "case")
	if i < len(o.sweep) {
		e := o.sweep[i]
		p := c.Corpus[e.prog]
		content = p.Src[:e.cut]
		mode = e.mode
		cs.Meta["origin"] = "sweep:" + p.Name
		cs.Meta["cut"] = fmt.Sprint(e.cut)
		if e.cut < len(p.Src) {
			cs.Faults = append(cs.Faults, "F1-torn")
		}
		cs.Ctx = CutContext(p.Src, e.cut)
	} else {
		var src []byte
		var origin string
		if o.prop == "C02" && r.Chance(1, 4) {
			// the shapes the property names: cyclic and deep hierarchies, identifier chains
			switch r.Intn(3) {
			case 0:
				src, origin = cyclicProgram(r), "cyclic"
			case 1:
				src, origin = hierarchyProgram(r), "hierarchy"
			default:
				src, origin = aliasChainProgram(r), "alias-chains"
			}
		} else {
			src, origin = pickProgram(c, r, false)
		}
		cs.Meta["origin"] = origin
		mode = r.Intn(2)
		content = src
		fk := ""
		switch k := r.Intn(100); {
		case k < 50:
			fk = "F1-torn"
		case k < 60:
			fk = ""
		case k < 68:
			fk = "F2-nonl"
		case k < 76:
			fk = "F3-badutf8"
		case k < 84:
			fk = "F4-zerofill"
		case k < 90:
			fk = "F5-halfoverwrite"
		case k < 95:
			fk = "F6-flip"
		default:
			fk = "F7-crlf"
		}
		if (origin == "cyclic" || origin == "hierarchy" || origin == "alias-chains" || origin == "big-literals" || origin == "retyping" || origin == "unions") && r.Chance(2, 3) {
			fk = ""
		}
		if o.prop == "C02" && fk == "F1-torn" && r.Chance(1, 3) {
			// the property names these endings: cut right after one of % < > # & | . " '
			idxs := []int{}
			for k, b := range src {
				if strings.IndexByte("%<>#&|.\"'", b) >= 0 {
					idxs = append(idxs, k+1)
				}
			}
			if len(idxs) > 0 {
				k := idxs[r.Intn(len(idxs))]
				content = src[:k]
				cs.Faults = append(cs.Faults, "F1-torn")
				cs.Ctx = CutContext(src, k)
				cs.Meta["cut"] = fmt.Sprint(k)
				fk = "done"
			}
		}
		if fk != "" && fk != "done" {
			other := c.Corpus[r.Intn(len(c.Corpus))].Src
			var fired string
			content, fired = ApplyFault(fk, src, other, r)
			if fired != "" {
				cs.Faults = append(cs.Faults, fired)
				if fired == "F1-torn" {
					cs.Ctx = CutContext(src, len(content))
					cs.Meta["cut"] = fmt.Sprint(len(content))
				} else {
					cs.Ctx = fired
				}
			}
		}
		if cs.Ctx == "" {
			cs.Ctx = "whole:" + strings.SplitN(origin, ":", 2)[0]
		}
	}
	argv := []string{target}
	if mode == 1 {
		argv = append(argv, "-i")
	}
	st := Step{Node: "ti", Files: map[string][]byte{target: content}, Argv: argv, Seed: r.U64(), Sched: "seeded"}
	if r.Chance(1, 4) {
		st.Sched = "canon"
	}
	shaped := false
	switch cs.Meta["origin"] {
	case "hierarchy", "big-literals", "alias-chains", "cyclic", "retyping", "unions":
		shaped = true
	}
	if i >= len(o.sweep) && (r.Chance(1, 12) || (shaped && r.Chance(1, 4))) {
		withPreload(c, r, st.Files, shaped)
		cs.Faults = append(cs.Faults, "preload")
	}
	cs.Steps = []Step{st}
	cs.Ctx += fmt.Sprintf("|m%d", mode)
	return cs
}

// judgeTiRun applies the C01 / C02 / C04 run-level oracle to one finished run.
// lineOK decides whether a stdout line is well-formed for the mode.
func judgeTiRun(prop string, res Result, slow bool, lineOK func(string) bool, tag string) *Finding {
	hang := res.Status == "timeout" || res.Status == "budget"
	switch {
	case hang:
		// a run that ends in the watchdog also exits with status 1, so it breaks C01's
		// "exit status 0" as much as C02's "never times out": both checks report it
		return &Finding{Sig: tag + "hang@" + res.HangAt, What: fmt.Sprintf("virtual watchdog fired after %d ticks while in %s (status %s)", res.Ticks, res.HangAt, res.Status)}
	case res.Status == "recursion":
		return &Finding{Sig: tag + "recursion@" + res.HangAt, What: fmt.Sprintf("call depth exceeded the cap in %s after %d ticks", res.HangAt, res.Ticks)}
	case res.Status == "stuck":
		infra("simulated run got stuck without ticking")
	}
	if prop == "C02" {
		return nil
	}
	switch res.Status {
	case "panic":
		at := "?"
		if len(res.PanicAt) > 0 {
			at = res.PanicAt[0]
		}
		return &Finding{Sig: tag + "panic:" + res.Panic + "@" + at, What: "Go runtime panic: " + firstLine(res.PanicS) + " in " + strings.Join(res.PanicAt, " < ")}
	case "fatal":
		return &Finding{Sig: tag + "fatal:" + res.Panic, What: "worker process died: " + res.Panic}
	case "deadlock":
		return &Finding{Sig: tag + "fatal:all goroutines are asleep - deadlock!", What: "every goroutine of the process is blocked and no timer is pending (the Go runtime ends such a process with a fatal error, exit 2)"}
	}
	if res.Exit != 0 {
		return &Finding{Sig: fmt.Sprintf("%sexit:%d", tag, res.Exit), What: fmt.Sprintf("exit status %d, stdout %q stderr %q", res.Exit, shortStr(res.Stdout, 120), shortStr(res.Stderr, 120))}
	}
	if len(res.Stderr) > 0 {
		return &Finding{Sig: tag + "stderr:" + lineShape(firstLine(string(res.Stderr))), What: "output on stderr: " + shortStr(res.Stderr, 160)}
	}
	for _, l := range splitLines(res.Stdout) {
		if !lineOK(l) {
			return &Finding{Sig: tag + "badline:" + lineShape(l), What: fmt.Sprintf("printed line is neither a diagnostic nor a record: %q", shortStr([]byte(l), 160))}
		}
	}
	return nil
}

func firstLine(s string) string {
	if i := strings.IndexByte(s, '\n'); i >= 0 {
		return s[:i]
	}
	return s
}

func c01LineOK(l string) bool { return reDiag.MatchString(l) || reHint.MatchString(l) }

func (o *tiInput) Judge(c *Ctx, w *Worker, cs *Case) *Finding {
	res, slow := c.RunTi(w, cs, 0, false)
	if res.Ticks > 0 {
		c.Stats.Cell(cs.Ctx)
	}
	c.Stats.Inc("status:" + res.Status)
	return judgeTiRun(o.prop, res, slow, c01LineOK, "")
}

// realClass classifies what the plain build did with the same disk and argv.
func realClass(rr RealResult, lineOK func(string) bool) string {
	so := string(rr.Stdout)
	se := string(rr.Stderr)
	switch {
	case rr.Killed:
		return "killed"
	case strings.Contains(se, "fatal error:"):
		return "fatal"
	case strings.Contains(se, "panic:") || strings.Contains(se, "goroutine "):
		return "panic"
	case rr.Exit == 1 && strings.HasSuffix(strings.TrimSpace(so), "timeout"):
		return "timeout"
	case rr.Exit != 0:
		return fmt.Sprintf("exit:%d", rr.Exit)
	case len(se) > 0:
		return "stderr"
	}
	for _, l := range splitLines(rr.Stdout) {
		if !lineOK(l) {
			return "badline"
		}
	}
	return "ok"
}

// confirmTi replays the last step's disk and argv on the plain build (real process, real
// 500 ms timer, pool idle) and requires the same class of failure.
func confirmTi(c *Ctx, cs *Case, f *Finding, lineOK func(string) bool, stepIdx int) (bool, string) {
	st := cs.Steps[stepIdx]
	files := stepFiles(cs, stepIdx)
	want := "ok"
	sig := f.Sig
	if i := strings.Index(sig, "|"); i >= 0 && i < 12 {
		sig = sig[i+1:]
	}
	switch {
	case strings.HasPrefix(sig, "hang@"):
		want = "timeout"
	case strings.HasPrefix(sig, "recursion@"):
		want = "timeout|fatal"
	case strings.HasPrefix(sig, "panic:"), strings.HasPrefix(sig, "fatal:"):
		want = "panic|fatal"
	case strings.HasPrefix(sig, "exit:"):
		want = "exit"
	case strings.HasPrefix(sig, "stderr:"):
		want = "stderr"
	case strings.HasPrefix(sig, "badline:"):
		want = "badline"
	}
	tries := 3
	if st.Sched != "canon" && !strings.Contains(want, "timeout") {
		tries = 40 // the failure may need a particular map order
	}
	var seen []string
	hits := 0
	for t := 0; t < tries; t++ {
		rr := c.RealRun("ti", c.cfgID(cs, st.Cfg), files, st.Argv, st.Env)
		cl := realClass(rr, lineOK)
		seen = append(seen, cl)
		match := false
		for _, wnt := range strings.Split(want, "|") {
			if cl == wnt || (wnt == "exit" && strings.HasPrefix(cl, "exit:")) {
				match = true
			}
		}
		if match {
			hits++
		}
		if strings.Contains(want, "timeout") {
			if !match {
				break // a genuine hang times out every time
			}
			continue
		}
		if match {
			break
		}
	}
	account := fmt.Sprintf("plain build, real process: wanted %s, saw %v", want, compress(seen))
	if strings.Contains(want, "timeout") {
		if c.Prop != "C02" {
			// exit status != 0 either way: a real fatal error or three real timeouts
			for _, s := range seen {
				if s == "fatal" || s == "panic" {
					return true, account
				}
			}
		}
		return hits == tries, account
	}
	return hits > 0, account
}

func compress(xs []string) string {
	m := map[string]int{}
	for _, x := range xs {
		m[x]++
	}
	ks := make([]string, 0, len(m))
	for k := range m {
		ks = append(ks, k)
	}
	sort.Strings(ks)
	var out []string
	for _, k := range ks {
		out = append(out, fmt.Sprintf("%s x%d", k, m[k]))
	}
	return strings.Join(out, ", ")
}

func (o *tiInput) Confirm(c *Ctx, cs *Case, f *Finding) (bool, string) {
	return confirmTi(c, cs, f, c01LineOK, 0)
}

func (o *tiInput) Shrinks(c *Ctx, cs *Case) []*Case {
	var out []*Case
	st := cs.Steps[0]
	if st.Sched != "canon" {
		n := cloneCase(cs)
		n.Steps[0].Sched = "canon"
		out = append(out, n)
	}
	if len(st.Argv) > 1 {
		n := cloneCase(cs)
		n.Steps[0].Argv = st.Argv[:1]
		out = append(out, n)
	}
	for _, b := range shrinkBytes(st.Files[target]) {
		n := cloneCase(cs)
		n.Steps[0].Files[target] = b
		out = append(out, n)
	}
	return out
}

func (o *tiInput) Describe(cs *Case) any {
	st := cs.Steps[0]
	return map[string]any{"origin": cs.Meta["origin"], "faults": cs.Faults, "eof_context": cs.Ctx, "argv": st.Argv,
		"sched": st.Sched, "bytes": len(st.Files[target]), "tail": tailStr(st.Files[target], 60)}
}

func tailStr(b []byte, n int) string {
	if len(b) > n {
		b = b[len(b)-n:]
	}
	return string(b)
}

// ---- C04: editor session ---------------------------------------------------------------------

type tiSession struct {
	grid  []gridEntry
	n     int
	extra []Prog // generated programs that take part in the grid (indexes after the corpus)
}

func (o *tiSession) prog(c *Ctx, pi int) Prog {
	if pi < len(c.Corpus) {
		return c.Corpus[pi]
	}
	return o.extra[pi-len(c.Corpus)]
}

type gridEntry struct {
	prog, cut, row, mode int
}

var queryModes = []string{"--suggest", "--hover", "--define"}

func (o *tiSession) Init(c *Ctx) {
	switch c.Tier {
	case "quick":
		o.n = 900
		r := Stream(c.Seed, "C04", 0, "quick-grid")
		for k := 0; k < 6; k++ {
			o.addGrid(c, r.Intn(len(c.Corpus)), 12, 3)
		}
		o.addProbeGrids(c, 1, 6)
	default:
		o.n = 30000
		for pi := range c.Corpus {
			o.addGrid(c, pi, 40, 1)
		}
		o.addProbeGrids(c, 24, 2)
	}
}

// addProbeGrids puts generated user-method probe programs (documented methods, class-level,
// namespaced and inherited receivers, incomplete calls) through the same exhaustive
// prefix x row x mode grid as the corpus programs.
func (o *tiSession) addProbeGrids(c *Ctx, n, stride int) {
	for k := 0; k < n; k++ {
		src, _ := userProbe(Stream(c.Seed, "C04", k, "probe-grid"))
		o.extra = append(o.extra, Prog{fmt.Sprintf("user-probe-%d", k), src})
		o.addGrid(c, len(c.Corpus)+len(o.extra)-1, 80, stride)
	}
}

// addGrid: every prefix at a line or token boundary x every row 0..lines+2 x three modes.
func (o *tiSession) addGrid(c *Ctx, pi, maxLines, stride int) {
	p := o.prog(c, pi)
	if bytes.Count(p.Src, []byte("\n")) > maxLines {
		return
	}
	cuts := map[int]bool{len(p.Src): true}
	for _, t := range Scan(p.Src) {
		if t.Kind == "nl" {
			cuts[t.Off] = true
			cuts[t.Off+1] = true
		}
	}
	k := 0
	for _, t := range Scan(p.Src) {
		if t.Kind != "ws" && t.Kind != "nl" {
			k++
			if k%(3*stride) == 0 {
				cuts[t.Off+len(t.Text)] = true
			}
		}
	}
	var cl []int
	for cut := range cuts {
		cl = append(cl, cut)
	}
	sort.Ints(cl)
	for _, cut := range cl {
		lines := bytes.Count(p.Src[:cut], []byte("\n")) + 1
		for row := 0; row <= lines+2; row++ {
			for m := range queryModes {
				o.grid = append(o.grid, gridEntry{pi, cut, row, m})
			}
		}
	}
}

func (o *tiSession) NCases(tier string) int { return o.n + (len(o.grid)+23)/24 }
func (o *tiSession) Rule() string {
	return "a case is an editor session: a program typed in steps (chars, tokens, lines, pastes, deletions), each save possibly torn, each followed by --suggest/--hover/--define --row=N with N from the cursor, a stale cursor, 0, or past EOF; plus grid cases (every line/token-boundary prefix x every row 0..lines+2 x 3 modes). distinct = distinct (mode, row class, EOF-context) cells of invocations that booted"
}
func (o *tiSession) ExpectedFaults() []string {
	return []string{"F1-torn", "F2-nonl", "stale-row", "row-0", "row-past-eof", "row-on-blank-or-comment", "row-impossible", "deletion"}
}

func rowClass(content []byte, row int) string {
	lines := strings.Split(string(content), "\n")
	n := len(lines)
	if len(content) > 0 && content[len(content)-1] == '\n' {
		n--
	}
	switch {
	case row <= 0:
		return "row-0"
	case row > n:
		return "row-past-eof"
	}
	l := strings.TrimSpace(lines[row-1])
	if l == "" || strings.HasPrefix(l, "#") {
		return "row-on-blank-or-comment"
	}
	if row == n {
		return "row-last"
	}
	return "row-mid"
}

func (o *tiSession) Make(c *Ctx, i int) *Case {
	cs := &Case{Prop: "C04", Index: i, Cfg: "shipped-test", Meta: map[string]string{}}
	if i >= o.n {
		// grid chunk: 24 consecutive grid entries, one invocation each
		cs.Kind = "grid"
		lo := (i - o.n) * 24
		for k := lo; k < lo+24 && k < len(o.grid); k++ {
			e := o.grid[k]
			p := o.prog(c, e.prog)
			content := p.Src[:e.cut]
			cs.Steps = append(cs.Steps, Step{Node: "ti", Files: map[string][]byte{target: content},
				Argv: []string{target, queryModes[e.mode], fmt.Sprintf("--row=%d", e.row)}, Seed: uint64(k), Sched: "canon",
				Note: rowClass(content, e.row) + "|" + CutContext(p.Src, e.cut)})
			cs.Meta["origin"] = "grid:" + p.Name
		}
		if len(cs.Steps) == 0 {
			return nil
		}
		return cs
	}
	cs.Kind = "session"
	r := Stream(c.Seed, "C04", i, "case")
	if r.Chance(1, 10) {
		// a finished file with documented user methods; the queries visit the rows of the
		// calls (instance, class-level, namespaced, inherited receivers; incomplete calls)
		src, rows := userProbe(r)
		cs.Meta["origin"] = "user-probe"
		for k, row := range rows {
			if r.Chance(1, 3) {
				row += r.Range(-1, 1)
			}
			rc := rowClass(src, row)
			st := Step{Node: "ti", Argv: []string{target, queryModes[r.Intn(3)], fmt.Sprintf("--row=%d", row)}, Seed: r.U64(), Sched: "seeded", Note: rc + "|whole:user-probe"}
			if k == 0 {
				st.Files = map[string][]byte{target: src}
			}
			cs.Steps = append(cs.Steps, st)
		}
		return cs
	}
	src, origin := pickProgram(c, r, false)
	if r.Chance(1, 6) {
		// a finished file of one of the size- and shape-dependent kinds (deep and diamond
		// hierarchies, cycles, big literals, identifier chains): the queries walk class
		// hierarchies of their own — completion asks, for every known signature, whether its
		// class is an ancestor of the receiver's — so they are asked on the rows that use the
		// shape (the last lines) and on a few others
		src, origin = shapedProgram(r)
		cs.Meta["origin"] = origin
		lines := bytes.Count(src, []byte("\n"))
		for k := 0; k < r.Range(6, 14); k++ {
			row := lines - r.Intn(min(lines, 12))
			if r.Chance(1, 2) {
				row = 1 + r.Intn(lines+1)
			}
			rc := rowClass(src, row)
			st := Step{Node: "ti", Argv: []string{target, queryModes[r.Intn(3)], fmt.Sprintf("--row=%d", row)}, Seed: r.U64(), Sched: "seeded", Note: rc + "|whole:" + origin}
			if k == 0 {
				st.Files = map[string][]byte{target: src}
			}
			cs.Steps = append(cs.Steps, st)
		}
		return cs
	}
	cs.Meta["origin"] = origin
	if len(src) == 0 {
		src = []byte("x = 1\n")
	}
	toks := Scan(src)
	nsteps := r.Range(6, 16)
	off := r.Intn(len(src)/2 + 1)
	if r.Chance(1, 4) {
		// the user is editing the end of an existing file
		off = len(src) - r.Intn(min(len(src), 300)+1)
	}
	var rows []int
	for s := 0; s < nsteps; s++ {
		// the editor types ...
		switch r.Intn(10) {
		case 0, 1, 2:
			off += r.Range(1, 3)
		case 3, 4, 5: // to the end of the next token
			for _, t := range toks {
				if t.Off+len(t.Text) > off {
					off = t.Off + len(t.Text)
					break
				}
			}
		case 6, 7: // to the end of the line
			if k := bytes.IndexByte(src[min(off, len(src)):], '\n'); k >= 0 {
				off += k + r.Intn(2)
			} else {
				off = len(src)
			}
		case 8: // paste
			off += r.Range(20, 200)
		case 9: // deletion
			off -= r.Range(1, 30)
			cs.Faults = append(cs.Faults, "deletion")
		}
		if off < 0 {
			off = 0
		}
		if off > len(src) {
			off = len(src)
		}
		// ... and saves; the save may be torn
		content := src[:off]
		ctx := CutContext(src, off)
		switch r.Intn(10) {
		case 0:
			var fired string
			content, fired = ApplyFault("F1-torn", content, nil, r)
			if fired != "" {
				cs.Faults = append(cs.Faults, fired)
				ctx = CutContext(src, len(content))
			}
		case 1:
			var fired string
			content, fired = ApplyFault("F2-nonl", content, nil, r)
			if fired != "" {
				cs.Faults = append(cs.Faults, fired)
			}
		}
		cursor := bytes.Count(src[:off], []byte("\n")) + 1
		rows = append(rows, cursor)
		lines := bytes.Count(content, []byte("\n")) + 1
		nq := r.Range(1, 2)
		for q := 0; q < nq; q++ {
			row := cursor
			switch r.Intn(10) {
			case 0:
				row = cursor - 1
			case 1:
				row = cursor + 1
			case 2:
				if len(rows) > 2 {
					row = rows[len(rows)-3]
					cs.Faults = append(cs.Faults, "stale-row")
				}
			case 3:
				row = 0
			case 4:
				row = lines + 1
			case 5:
				row = lines + 2
			case 6:
				row = 1 + r.Intn(lines)
			}
			rowArg := ""
			if r.Chance(1, 25) {
				// rows no line can have: negative, far past the end, beyond the int range, or
				// no --row argument at all (what a confused plugin sends)
				switch r.Intn(4) {
				case 0:
					row = -r.Range(1, lines+1)
				case 1:
					row = 1<<31 - r.Intn(3)
				case 2:
					rowArg = "--row=99999999999999999999"
					row = 0
				default:
					rowArg = "-"
					row = 0
				}
				cs.Faults = append(cs.Faults, "row-impossible")
			}
			rc := rowClass(content, row)
			if rc == "row-0" || rc == "row-past-eof" || rc == "row-on-blank-or-comment" {
				cs.Faults = append(cs.Faults, rc)
			}
			mode := queryModes[r.Intn(3)]
			argv := []string{target, mode, fmt.Sprintf("--row=%d", row)}
			if rowArg == "-" {
				argv = argv[:2]
			} else if rowArg != "" {
				argv[2] = rowArg
			}
			st := Step{Node: "ti", Argv: argv, Seed: r.U64(), Sched: "seeded", Note: rc + "|" + ctx}
			if q == 0 {
				st.Files = map[string][]byte{target: content}
			}
			cs.Steps = append(cs.Steps, st)
		}
	}
	return cs
}

func c04LineOK(mode string) func(string) bool {
	return func(l string) bool {
		if reDiag.MatchString(l) {
			return true
		}
		if l == "" {
			return false
		}
		switch l[0] {
		case '%', '@', '$':
			n := strings.Count(l, ":::")
			if mode == "--define" {
				switch l[0] {
				case '%':
					return n >= 4
				case '$':
					return n >= 3
				default:
					return n >= 1
				}
			}
			return n >= 1
		}
		return false
	}
}

func stepMode(st *Step) string {
	for _, a := range st.Argv {
		for _, m := range queryModes {
			if a == m {
				return m
			}
		}
	}
	return ""
}

func (o *tiSession) Judge(c *Ctx, w *Worker, cs *Case) *Finding {
	for i := range cs.Steps {
		st := &cs.Steps[i]
		res, slow := c.RunTi(w, cs, i, i > 0)
		mode := stepMode(st)
		if res.Ticks > 0 {
			c.Stats.Cell(mode + "|" + st.Note)
		}
		c.Stats.Inc("invocations")
		c.Stats.Inc("status:" + res.Status)
		if len(res.Stdout) > 0 {
			c.Stats.Inc("invocations_with_output")
		}
		if f := judgeTiRun("C04", res, slow, c04LineOK(mode), mode+"|"); f != nil {
			f.What = fmt.Sprintf("step %d of %d (%v): %s", i, len(cs.Steps), st.Argv, f.What)
			if cs.Meta == nil {
				cs.Meta = map[string]string{}
			}
			cs.Meta["failing_step"] = fmt.Sprint(i)
			return f
		}
	}
	return nil
}

func (o *tiSession) Confirm(c *Ctx, cs *Case, f *Finding) (bool, string) {
	idx := len(cs.Steps) - 1
	fmt.Sscan(cs.Meta["failing_step"], &idx)
	if idx >= len(cs.Steps) {
		idx = len(cs.Steps) - 1
	}
	return confirmTi(c, cs, f, c04LineOK(stepMode(&cs.Steps[idx])), idx)
}

func (o *tiSession) Shrinks(c *Ctx, cs *Case) []*Case {
	var out []*Case
	idx := len(cs.Steps) - 1
	fmt.Sscan(cs.Meta["failing_step"], &idx)
	if idx < len(cs.Steps) && len(cs.Steps) > 1 {
		// the failing invocation alone, on the disk as it was then (each invocation is a fresh process)
		n := cloneCase(cs)
		st := n.Steps[idx]
		st.Files = stepFiles(cs, idx)
		n.Steps = []Step{st}
		n.Meta["failing_step"] = "0"
		out = append(out, n)
	}
	if len(cs.Steps) == 1 {
		st := cs.Steps[0]
		if st.Sched != "canon" {
			n := cloneCase(cs)
			n.Steps[0].Sched = "canon"
			out = append(out, n)
		}
		for _, b := range shrinkBytes(st.Files[target]) {
			n := cloneCase(cs)
			n.Steps[0].Files[target] = b
			out = append(out, n)
		}
	}
	return out
}

func (o *tiSession) Describe(cs *Case) any {
	var steps []string
	for i, st := range cs.Steps {
		if i >= 8 {
			steps = append(steps, fmt.Sprintf("... %d more", len(cs.Steps)-i))
			break
		}
		s := strings.Join(st.Argv[1:], " ")
		if b, ok := st.Files[target]; ok {
			s = fmt.Sprintf("save(%dB,...%q) ", len(b), tailStr(b, 16)) + s
		}
		steps = append(steps, s+" ["+st.Note+"]")
	}
	return map[string]any{"kind": cs.Kind, "origin": cs.Meta["origin"], "faults": cs.Faults, "steps": steps}
}
