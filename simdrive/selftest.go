package main

import (
	"bytes"
	"fmt"
	"os"
	"strings"
)

// selfTestDeterminism proves that one seed is one execution: every (scenario, seed) pair is
// executed in several warm workers, in fresh processes, and under GOMAXPROCS 1, 4 and 16;
// event-log hash, tick count, status, exit code and stdout must all be equal.
func selfTestDeterminism(c *Ctx) int {
	type sc struct {
		job  Job
		name string
	}
	var scs []sc
	r := Stream(c.Seed, "selftest", 0, "scenarios")
	n := 240
	if c.Tier == "quick" {
		n = 60
	}
	for i := 0; i < n; i++ {
		src, origin := pickProgram(c, r, true)
		if i%3 == 0 {
			src, _ = ApplyFault(faultKinds[r.Intn(len(faultKinds))], src, c.Corpus[r.Intn(len(c.Corpus))].Src, r)
		}
		mode := c05Modes(r, src)
		j := Job{Node: "ti", Cfg: c.CfgShipped, Files: map[string][]byte{target: src}, Argv: append([]string{target}, mode...),
			Seed: r.U64(), Sched: []string{"seeded", "seeded", "rev", "canon"}[i%4], Budget: preBudget(len(src)), NsTick: nsPerTick}
		scs = append(scs, sc{j, origin})
	}
	type obs struct {
		ev, status string
		ticks      int64
		exit       int
		out        []byte
	}
	collect := func(gomaxprocs string, workers int) []obs {
		os.Setenv("VERIF_WORKER_GOMAXPROCS", gomaxprocs)
		bins := c.Pool.bins
		p := NewPool(c.World, bins, workers)
		defer p.Close()
		out := make([]obs, len(scs))
		p.ParallelFor(len(scs), func(w *Worker, i int) {
			j := scs[i].job
			res := w.Exec(&j)
			out[i] = obs{res.EvHash, res.Status, res.Ticks, res.Exit, res.Stdout}
		})
		return out
	}
	configs := []struct {
		gmp string
		w   int
	}{{"1", 16}, {"4", 4}, {"16", 1}, {"2", 16}, {"1", 1}}
	var ref []obs
	bad := 0
	for k, cf := range configs {
		got := collect(cf.gmp, cf.w)
		if k == 0 {
			ref = got
			continue
		}
		for i := range got {
			a, b := ref[i], got[i]
			if a.ev != b.ev || a.status != b.status || a.ticks != b.ticks || a.exit != b.exit || !bytes.Equal(a.out, b.out) {
				bad++
				if bad <= 5 {
					fmt.Printf("NONDETERMINISM scenario %d (%s %v): GOMAXPROCS=%s workers=%d gave ev=%s status=%s ticks=%d exit=%d; reference ev=%s status=%s ticks=%d exit=%d\n",
						i, scs[i].name, scs[i].job.Argv, cf.gmp, cf.w, b.ev, b.status, b.ticks, b.exit, a.ev, a.status, a.ticks, a.exit)
				}
			}
		}
	}
	// fresh-process check: each scenario alone in a brand-new worker
	fresh := 0
	for i := 0; i < len(scs); i += 6 {
		p := NewPool(c.World, c.Pool.bins, 1)
		j := scs[i].job
		res := p.One().Exec(&j)
		p.Close()
		fresh++
		a := ref[i]
		if a.ev != res.EvHash || a.ticks != res.Ticks || !bytes.Equal(a.out, res.Stdout) || a.status != res.Status {
			bad++
			fmt.Printf("NONDETERMINISM scenario %d: fresh process differs from warm worker (ticks %d vs %d, status %s vs %s)\n", i, res.Ticks, a.ticks, res.Status, a.status)
		}
	}
	fmt.Printf("determinism self-test: %d scenarios x %d pool configurations + %d fresh-process runs, %d mismatches\n", len(scs), len(configs), fresh, bad)
	bad += schedulerLab(c)
	if bad > 0 {
		return 2
	}
	return 0
}

// schedulerLab self-tests the seeded goroutine scheduler on the simlab program: one seed is
// one interleaving (same output in different worker processes and pool shapes), different
// seeds reach different interleavings, and the canonical schedule is creation order.
func schedulerLab(c *Ctx) int {
	modes := []string{"fanout", "collect", "rendezvous", "racy", "loadfiles", "once", "env"}
	nseeds := 24
	type key struct {
		mode  string
		sched string
		seed  uint64
	}
	var keys []key
	for _, m := range modes {
		keys = append(keys, key{m, "canon", 0}, key{m, "rev", 0})
		for s := 1; s <= nseeds; s++ {
			keys = append(keys, key{m, "seeded", uint64(s) * 7919})
		}
	}
	runAll := func(workers int) []string {
		p := NewPool(c.World, c.Pool.bins, workers)
		defer p.Close()
		out := make([]string, len(keys))
		p.ParallelFor(len(keys), func(w *Worker, i int) {
			k := keys[i]
			res := w.Exec(&Job{Node: "simlab", Argv: []string{k.mode}, Seed: k.seed, Sched: k.sched, Budget: 20_000_000})
			out[i] = fmt.Sprintf("%s|%d|%s|%s|sched=%d|g=%d", res.Status, res.Exit, res.EvHash, bytes.TrimSpace(res.Stdout), res.SchedEvts, res.Goroutines)
		})
		return out
	}
	a := runAll(16)
	b := runAll(3)
	d := runAll(1)
	bad := 0
	distinct := map[string]map[string]bool{}
	for i, k := range keys {
		if a[i] != b[i] || a[i] != d[i] {
			bad++
			if bad <= 6 {
				fmt.Printf("NONDETERMINISM simlab %s %s seed=%d:\n  %s\n  %s\n  %s\n", k.mode, k.sched, k.seed, a[i], b[i], d[i])
			}
		}
		if !strings.HasPrefix(a[i], "exit|0|") {
			bad++
			fmt.Printf("simlab %s %s seed=%d did not finish normally: %s\n", k.mode, k.sched, k.seed, a[i])
		}
		if distinct[k.mode] == nil {
			distinct[k.mode] = map[string]bool{}
		}
		parts := strings.Split(a[i], "|")
		if len(parts) > 3 {
			distinct[k.mode][parts[3]] = true
		}
		if k.sched == "canon" && k.mode == "fanout" && !strings.Contains(a[i], "fanout [0 1 2 3 4]") {
			bad++
			fmt.Printf("simlab fanout under the canonical schedule is not creation order: %s\n", a[i])
		}
	}
	// a simulated deadlock ends the way the real process would: the pending watchdog timer
	// fires (virtual clock jumps to it), or, without a timer, the runtime gives up
	{
		w := c.Pool.One()
		for _, sch := range []string{"canon", "seeded"} {
			a := w.Exec(&Job{Node: "simlab", Argv: []string{"deadlock-timer"}, Seed: 5, Sched: sch, Budget: 40_000_000, NsTick: nsPerTick})
			if a.Status != "timeout" || a.Exit != 1 || !bytes.Contains(a.Stdout, []byte("timeout")) || a.Ticks < watchdogTicks {
				bad++
				fmt.Printf("simlab deadlock-timer (%s): want the watchdog branch at >= %d ticks, got status=%s exit=%d ticks=%d out=%q\n", sch, watchdogTicks, a.Status, a.Exit, a.Ticks, a.Stdout)
			}
			b := w.Exec(&Job{Node: "simlab", Argv: []string{"deadlock-plain"}, Seed: 5, Sched: sch, Budget: 40_000_000, NsTick: nsPerTick})
			if b.Status != "deadlock" {
				bad++
				fmt.Printf("simlab deadlock-plain (%s): want status deadlock, got status=%s exit=%d out=%q\n", sch, b.Status, b.Exit, b.Stdout)
			}
		}
		fmt.Printf("scheduler lab deadlock  : timer and no-timer variants end as the real process would\n")
		// timers that are not ruby-ti's watchdog: a context deadline and a stoppable timer that
		// do not fire before the work is done, and a ticker whose ticks must not end the work
		for _, k := range []string{"context", "newtimer", "ticker"} {
			for _, sch := range []string{"canon", "seeded", "rev"} {
				a := w.Exec(&Job{Node: "simlab", Argv: []string{"timers-" + k}, Seed: 11, Sched: sch, Budget: 40_000_000, NsTick: nsPerTick})
				if a.Exit != 0 || !bytes.Contains(a.Stdout, []byte("timers "+k+" done 599994")) || (k == "ticker" && !bytes.Contains(a.Stdout, []byte("true"))) {
					bad++
					fmt.Printf("simlab timers-%s (%s): want the work to finish, got status=%s exit=%d ticks=%d out=%q\n", k, sch, a.Status, a.Exit, a.Ticks, a.Stdout)
				}
			}
		}
		fmt.Printf("scheduler lab timers    : context deadline, stoppable timer and ticker do not end the computation\n")
		// unsynchronised map sharing is reported as the runtime's fatal error under every
		// schedule; sharing that is ordered by a lock, a channel, a WaitGroup, a semaphore or a
		// Once is never reported
		for _, sch := range []string{"canon", "rev", "seeded", "seeded", "seeded"} {
			for k, mode := range []string{"maprace-writers", "maprace-abandoned", "mapsafe"} {
				a := w.Exec(&Job{Node: "simlab", Argv: []string{mode}, Seed: uint64(31 + 7*k), Sched: sch, Budget: 40_000_000, NsTick: nsPerTick})
				racy := a.Status == "panic" && strings.Contains(a.Panic, "concurrent map")
				if mode == "mapsafe" && (racy || a.Status != "exit" || !bytes.Contains(a.Stdout, []byte("mapsafe 4 2 10 30 true"))) {
					bad++
					fmt.Printf("simlab mapsafe (%s): correctly synchronised sharing must pass, got status=%s panic=%q out=%q\n", sch, a.Status, a.Panic, a.Stdout)
				}
				// (the canonical schedule never preempts and the reversed one always prefers the
				// youngest goroutine: neither has to see the overlap; every seeded one must)
				if mode != "mapsafe" && !racy && sch == "seeded" {
					bad++
					fmt.Printf("simlab %s (%s): unsynchronised map sharing not reported: status=%s panic=%q out=%q\n", mode, sch, a.Status, a.Panic, a.Stdout)
				}
			}
		}
		fmt.Printf("scheduler lab map races : unsynchronised sharing reported, synchronised sharing not\n")
	}
	for _, m := range modes {
		fmt.Printf("scheduler lab %-10s: %d distinct interleavings over %d schedules\n", m, len(distinct[m]), nseeds+2)
		if len(distinct[m]) < 3 {
			bad++
			fmt.Printf("scheduler lab %s: the scheduler does not vary the interleaving\n", m)
		}
	}
	return bad
}

// gateNode is the fidelity gate of the non-ti engines; each engine file overrides it through
// nodeGates.
var nodeGates = map[string]func(c *Ctx) gateResult{}

func gateNode(c *Ctx) gateResult {
	if g, ok := nodeGates[c.Prop]; ok {
		return g(c)
	}
	return gateResult{}
}
