package main

import (
	"bytes"
	"fmt"
	"regexp"
	"sort"
	"strings"
)

// C05: same input, same output. What is simulated is the map-order schedule; the oracle is
// confluence (output independent of the simulator's choices).

func init() { oracles["C05"] = func() Oracle { return &confluence{} } }

type confluence struct{ n, k int }

func (o *confluence) Init(c *Ctx) {
	if c.Tier == "quick" {
		o.n, o.k = 2600, 4
	} else {
		o.n, o.k = 60000, 12
	}
}
func (o *confluence) NCases(string) int { return o.n }
func (o *confluence) Rule() string {
	return "case = (corpus | generated-with-name-ties | mutated program) x output mode x K map-order schedules (canonical, reversed, seeded runtime-faithful); non-trivial = at least one map-range site with >= 2 keys was reached and two schedules really chose different orders there (event-log hashes differ); distinct = distinct event-log hashes"
}
func (o *confluence) ExpectedFaults() []string {
	return []string{"sched-canon", "sched-rev", "sched-seeded"}
}

var reClassDecl = regexp.MustCompile(`(?m)^\s*(?:class|module)\s+([A-Z]\w*)`)
var reDefDecl = regexp.MustCompile(`(?m)^\s*def\s+(?:self\.)?([a-z_]\w*[?!]?)`)

func namesIn(src []byte, re *regexp.Regexp) []string {
	var out []string
	seen := map[string]bool{}
	for _, m := range re.FindAllSubmatch(src, -1) {
		if s := string(m[1]); !seen[s] {
			seen[s] = true
			out = append(out, s)
		}
	}
	return out
}

func c05Modes(r *Rng, src []byte) []string {
	lines := bytes.Count(src, []byte("\n")) + 1
	row := fmt.Sprintf("--row=%d", r.Intn(lines+2))
	classes := append(namesIn(src, reClassDecl), "String", "Object", "Array")
	defs := append(namesIn(src, reDefDecl), "puts")
	switch r.Intn(13) {
	case 0:
		return nil
	case 1:
		return []string{"-i"}
	case 2:
		return []string{"--hover", row}
	case 3:
		return []string{"--suggest", row}
	case 4:
		return []string{"--define", row}
	case 5:
		return []string{"--llm-nav"}
	case 6:
		return []string{"--llm-nav", "--all"}
	case 7:
		if r.Chance(1, 2) {
			return []string{"--llm-nav", "--target=" + r.Pick(classes)}
		}
		return []string{"--llm-nav", "--target=" + r.Pick(defs)}
	case 8:
		return []string{"--llm-define"}
	case 9:
		return []string{"--llm-define", "--class=" + r.Pick(classes)}
	case 10:
		return []string{"--llm-class"}
	case 11:
		return []string{"--extends", "--class=" + r.Pick(classes)}
	default:
		return []string{"--suggest", row}
	}
}

// queryProbe builds a program of builtin calls, half of them to methods that have several
// overloads in the configuration (ties between signatures of one name are where output
// order can depend on map order), and returns it with the row of one of the calls.
func queryProbe(c *Ctx, r *Rng) ([]byte, int) {
	count := map[string]int{}
	for _, b := range c.Builtins {
		count[fmt.Sprintf("%s|%s|%v", b.Class, b.Name, b.Static)]++
	}
	var over []BuiltinMethod
	for _, b := range c.Builtins {
		if count[fmt.Sprintf("%s|%s|%v", b.Class, b.Name, b.Static)] > 1 {
			over = append(over, b)
		}
	}
	var sb strings.Builder
	n := r.Range(2, 8)
	for k := 0; k < n; k++ {
		pool := c.Builtins
		if len(over) > 0 && r.Chance(1, 2) {
			pool = over
		}
		g := &Gen{r: r, builtins: pool}
		switch r.Intn(3) {
		case 0:
			sb.WriteString(g.builtinCall() + "\n")
		case 1:
			sb.WriteString(fmt.Sprintf("v%d = %s\n", k, g.builtinCall()))
		default:
			sb.WriteString(fmt.Sprintf("p %s\n", g.builtinCall()))
		}
	}
	return []byte(sb.String()), 1 + r.Intn(n)
}

// userProbe builds a program that defines documented user methods — instance, class-level,
// inside a nested module, inherited, overridden, same name in two classes — and then calls
// each of them on a line of its own. It returns the program and the rows of those calls,
// where the editor queries have something to say.
func userProbe(r *Rng) ([]byte, []int) {
	var sb strings.Builder
	row := 0
	line := func(s string) { sb.WriteString(s + "\n"); row++ }
	doc := func(ind string) {
		if r.Chance(2, 3) {
			for k := 0; k < 1+r.Intn(2); k++ {
				line(ind + "# ti-doc: " + docText(r))
			}
		}
	}
	nested := r.Chance(1, 2)
	ind := ""
	if nested {
		line("module Shop")
		ind = "  "
	}
	line(ind + "class Base")
	doc(ind + "  ")
	line(ind + "  def greet(name, times = 1)")
	line(ind + "    name")
	line(ind + "  end")
	doc(ind + "  ")
	line(ind + "  def self.build(kind)")
	line(ind + "    new")
	line(ind + "  end")
	line(ind + "end")
	line(ind + "class Greeter < Base")
	if r.Chance(1, 2) {
		doc(ind + "  ")
		line(ind + "  def greet(name, times = 2)")
		line(ind + "    times")
		line(ind + "  end")
	}
	doc(ind + "  ")
	line(ind + "  def shout(word)")
	line(ind + "    word.upcase")
	line(ind + "  end")
	line(ind + "end")
	q := ""
	if nested {
		line("end")
		q = "Shop::"
	}
	// two classes whose names differ only in case, and (below) constants that do not exist:
	// what a listing of "every class" prints for them
	line("class Json")
	line("  def dump(x)")
	line("    x")
	line("  end")
	line("end")
	line("class JSON")
	line("  def self.parse(s)")
	line("    s")
	line("  end")
	line("end")
	doc("")
	line("def helper(x)")
	line("  x")
	line("end")
	// bodies whose lines call several user methods at once (call-graph edges that share a row)
	line("def combo(a, b)")
	line("  helper(a.greet(\"x\")) + helper(b.shout(\"y\"))")
	line("  a.greet(b.shout(\"w\"))")
	if r.Chance(1, 2) {
		line("  helper(1); helper(2); a.shout(\"v\")")
	}
	line("end")
	var rows []int
	call := func(s string) { line(s); rows = append(rows, row) }
	call("g = " + q + "Greeter.new")
	call("b = " + q + "Base.build(:x)")
	call("g.greet(\"a\")")
	call("r = g.greet(\"a\", 3)")
	call("g.shout(\"w\")")
	call("b.greet(\"z\")")
	call("helper(1)")
	call("combo(g, g)")
	// string literals that span lines: the row of their first line belongs to the value
	call("note = \"first")
	line("second line\"")
	call("g.greet(\"multi")
	line("line\", 2)")
	call("Js::X")
	call("Nope")
	call("JSON.")
	call("Jso")
	call("g.")
	call(q + "Greeter.")
	call("g.sh")
	return []byte(sb.String()), rows
}

func (o *confluence) Make(c *Ctx, i int) *Case {
	r := Stream(c.Seed, "C05", i, "case")
	src, origin := pickProgram(c, r, true)
	if origin == "generated" || r.Chance(1, 5) {
		src, origin = Generate(r, c.Builtins, true), "generated-ties"
	}
	if r.Chance(1, 12) {
		src, _ = userProbe(r)
		origin = "user-probe"
	}
	mode := c05Modes(r, src)
	if r.Chance(1, 5) {
		// editor-query probe: one call of a configured (preferably overloaded) method per
		// line, queried on exactly the row of one of the calls
		var row int
		src, row = queryProbe(c, r)
		origin = "query-probe"
		mode = []string{r.Pick(queryModes), fmt.Sprintf("--row=%d", row)}
		if r.Chance(1, 3) {
			var rows []int
			src, rows = userProbe(r)
			origin = "user-probe"
			mode[1] = fmt.Sprintf("--row=%d", rows[r.Intn(len(rows))])
		}
	}
	cs := &Case{Prop: "C05", Kind: "confluence", Index: i, Cfg: "shipped-test", Meta: map[string]string{"origin": origin}}
	if r.Chance(1, 8) {
		// a configuration in which one class is declared by several files that disagree:
		// what ti prints then depends on the order in which the files are registered, which
		// must be the same in every process (sorted file names), however they are read
		v := r.Intn(4)
		retA, retB := []string{"Int", "String", "Float", "Bool"}[v], []string{"Float", "Int", "String", "Symbol"}[v]
		mk := func(ret, doc string) []byte {
			return []byte(fmt.Sprintf(`{"frame":"Builtin","class":"Dupe","instance_methods":[],"class_methods":[{"name":"read","arguments":[],"return_type":{"type":["%s"]},"document":"%s"},{"name":"size","arguments":[{"type":["%s"]}],"return_type":{"type":["%s"]}}]}`, ret, doc, ret, ret))
		}
		cfg := map[string][]byte{}
		for n, b := range c.ShippedCfg {
			cfg[n] = b
		}
		cfg["dupe.json"] = mk(retA, "first")
		cfg["dupe_ext.json"] = mk(retB, "second")
		cfg["zz_dupe_more.json"] = mk(retA, "")
		cs.Configs = map[string]map[string][]byte{"dup": cfg}
		cs.Cfg = "dup"
		src = append([]byte("x = Dupe.read\ndbtp x\ny = Dupe.size(x)\ndbtp y\nDupe.size(1, 2)\n"), src...)
		cs.Meta["origin"] = origin + "+dup-config"
		if len(mode) > 0 && strings.HasPrefix(mode[len(mode)-1], "--row=") {
			mode[len(mode)-1] = fmt.Sprintf("--row=%d", 1+r.Intn(5))
		}
	}
	argv := append([]string{target}, mode...)
	for k := 0; k < o.k; k++ {
		st := Step{Node: "ti", Argv: argv, Seed: r.U64(), Sched: "seeded"}
		switch k {
		case 0:
			st.Sched = "canon"
			st.Files = map[string][]byte{target: src}
		case 1:
			st.Sched = "rev"
		}
		cs.Faults = append(cs.Faults, "sched-"+st.Sched)
		cs.Steps = append(cs.Steps, st)
	}
	if r.Chance(1, 12) {
		withPreload(c, r, cs.Steps[0].Files, false) // definitions preloaded through .ti-loader.json
		cs.Meta["origin"] += "+preload"
	}
	return cs
}

func modeOf(argv []string) string {
	var fl []string
	for _, a := range argv[1:] {
		if i := strings.IndexByte(a, '='); i > 0 {
			a = a[:i]
		}
		fl = append(fl, a)
	}
	if len(fl) == 0 {
		return "diag"
	}
	return strings.Join(fl, "+")
}

func hasArg(argv []string, a string) bool {
	for _, x := range argv {
		if x == a {
			return true
		}
	}
	return false
}

// normalise applies the property's equivalence: --define records form an unordered set.
func normaliseOut(argv []string, out []byte) string {
	if hasArg(argv, "--define") {
		ls := splitLines(out)
		sort.Strings(ls)
		return strings.Join(ls, "\n")
	}
	return string(out)
}

func firstDiff(a, b string) string {
	la, lb := strings.Split(a, "\n"), strings.Split(b, "\n")
	for i := 0; i < len(la) || i < len(lb); i++ {
		x, y := "<none>", "<none>"
		if i < len(la) {
			x = la[i]
		}
		if i < len(lb) {
			y = lb[i]
		}
		if x != y {
			return fmt.Sprintf("line %d: %q vs %q", i+1, shortStr([]byte(x), 100), shortStr([]byte(y), 100))
		}
	}
	return "?"
}

func (o *confluence) Judge(c *Ctx, w *Worker, cs *Case) *Finding {
	var first Result
	var firstOut string
	argv := cs.Steps[0].Argv
	evs := map[string]bool{}
	for i := range cs.Steps {
		res, _ := c.RunTi(w, cs, i, i > 0)
		if res.Status == "timeout" || res.Status == "budget" || res.Status == "recursion" {
			c.Stats.Inc("skipped_hang_cases") // C02's business
			return nil
		}
		out := normaliseOut(argv, res.Stdout)
		if res.Status != "exit" {
			out += "\n<status " + res.Status + " " + res.Panic + ">"
		}
		evs[res.EvHash] = true
		c.Stats.mu.Lock()
		for _, s := range res.Sites {
			if s.MaxN >= 2 {
				m := c.Stats.SiteOrder[s.Site]
				if m == nil {
					m = map[string]bool{}
					c.Stats.SiteOrder[s.Site] = m
				}
				if len(m) < 4096 {
					m[fmt.Sprintf("%d/%x", s.Visits, s.Ord)] = true
				}
			}
		}
		c.Stats.mu.Unlock()
		if i == 0 {
			first, firstOut = res, out
			continue
		}
		if out != firstOut || res.Exit != first.Exit {
			mode := modeOf(argv)
			site := o.attribute(c, w, cs, i, firstOut, first.Exit, res)
			return &Finding{Sig: "order:" + mode + "@" + site,
				What: fmt.Sprintf("output of `ti %s` depends on map iteration order (schedule %d %s/seed %d vs canonical): %s", strings.Join(argv, " "), i, cs.Steps[i].Sched, cs.Steps[i].Seed, firstDiff(firstOut, out))}
		}
	}
	if len(evs) >= 2 {
		c.Stats.mu.Lock()
		for h := range evs {
			if len(c.Stats.Distinct) < 2_000_000 {
				c.Stats.Distinct[h] = true
			}
		}
		c.Stats.mu.Unlock()
		c.Stats.Inc("nontrivial_cases")
		c.Stats.Inc("nontrivial:" + modeOf(argv))
	} else {
		c.Stats.Inc("trivial_cases_no_order_choice")
	}
	return nil
}

// attribute names the map-range site whose order alone explains the divergence.
func (o *confluence) attribute(c *Ctx, w *Worker, cs *Case, i int, firstOut string, firstExit int, res Result) string {
	if len(cs.Steps[i].Only) == 1 {
		return c.siteName(cs.Steps[i].Only[0])
	}
	argv := cs.Steps[0].Argv
	{
		// every map site canonical: what remains seeded is the goroutine schedule, the
		// select order, the wall clock and the process-wide random generator
		probe := cloneCase(cs)
		probe.Steps = []Step{cs.Steps[0], cs.Steps[i]}
		probe.Steps[0].Files = stepFiles(cs, 0)
		probe.Steps[1].Only = []int{-1}
		c.RunStep(w, probe, 0, stage2Budget, false)
		r2 := c.RunStep(w, probe, 1, stage2Budget, true)
		if normaliseOut(argv, r2.Stdout) != firstOut || r2.Exit != firstExit {
			if res.SchedEvts > 0 {
				return "goroutine-schedule"
			}
			return "clock-or-random-source"
		}
	}
	for _, s := range res.Sites {
		if s.MaxN < 2 {
			continue
		}
		probe := cloneCase(cs)
		probe.Steps = []Step{cs.Steps[0], cs.Steps[i]}
		probe.Steps[0].Files = stepFiles(cs, 0)
		probe.Steps[1].Only = []int{s.Site}
		c.RunStep(w, probe, 0, stage2Budget, false)
		r2 := c.RunStep(w, probe, 1, stage2Budget, true)
		if normaliseOut(argv, r2.Stdout) != firstOut || r2.Exit != firstExit {
			return c.siteName(s.Site)
		}
	}
	return "several-sites"
}

func (c *Ctx) siteName(id int) string {
	if s, ok := c.Sites[id]; ok {
		return s.Func
	}
	return fmt.Sprintf("site%d", id)
}

func (o *confluence) Confirm(c *Ctx, cs *Case, f *Finding) (bool, string) {
	// the same divergence must come out of a different warm process
	w := c.Pool.workers[len(c.Pool.workers)-1]
	g := o.Judge(c, w, cs)
	if g == nil || g.Sig != f.Sig {
		return false, "did not reproduce in a second simulator process"
	}
	// supporting evidence from the plain build: fresh processes, the runtime's own randomisation
	files := stepFiles(cs, 0)
	argv := cs.Steps[0].Argv
	outs := map[string]int{}
	for t := 0; t < 30; t++ {
		rr := c.RealRun("ti", c.cfgID(cs, ""), files, argv, nil)
		outs[normaliseOut(argv, rr.Stdout)]++
	}
	return true, fmt.Sprintf("reproduced identically in a second simulator process; plain build printed %d distinct outputs in 30 fresh processes", len(outs))
}

func (o *confluence) Shrinks(c *Ctx, cs *Case) []*Case {
	var out []*Case
	if len(cs.Steps) > 2 {
		// keep the canonical run and one other schedule
		for i := 1; i < len(cs.Steps); i++ {
			n := cloneCase(cs)
			n.Steps = []Step{cs.Steps[0], cs.Steps[i]}
			n.Steps[0].Files = stepFiles(cs, 0)
			out = append(out, n)
		}
		return out
	}
	if len(cs.Steps) == 2 && len(cs.Steps[1].Only) == 0 {
		for id := range c.Sites {
			n := cloneCase(cs)
			n.Steps[1].Only = []int{id}
			out = append(out, n)
		}
		sort.Slice(out, func(a, b int) bool { return out[a].Steps[1].Only[0] < out[b].Steps[1].Only[0] })
	}
	if len(cs.Steps) == 2 && cs.Steps[1].Sched == "seeded" {
		n := cloneCase(cs)
		n.Steps[1].Sched = "rev"
		out = append(out, n)
	}
	for _, b := range shrinkBytes(cs.Steps[0].Files[target]) {
		n := cloneCase(cs)
		n.Steps[0].Files[target] = b
		out = append(out, n)
	}
	return out
}

func (o *confluence) Describe(cs *Case) any {
	var sch []string
	for _, s := range cs.Steps {
		sch = append(sch, fmt.Sprintf("%s/%d", s.Sched, s.Seed%1000))
	}
	return map[string]any{"origin": cs.Meta["origin"], "argv": cs.Steps[0].Argv, "schedules": sch, "program_bytes": len(cs.Steps[0].Files[target]), "program_head": shortStr(cs.Steps[0].Files[target], 80)}
}
