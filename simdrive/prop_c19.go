package main

import (
	"bytes"
	"encoding/json"
	"fmt"
	"sort"
	"strings"
)

// C19: config file names and splitting do not matter. The simulated disk chooses the
// arrival order of config files (seeded renames: Glob sorts by name) and fragments one
// class's declarations over several files that interleave with other classes.

func init() { oracles["C19"] = func() Oracle { return &cfgLayout{} } }

type cfgLayout struct{ n, progs int }

func (o *cfgLayout) Init(c *Ctx) {
	if c.Tier == "quick" {
		o.n, o.progs = 320, 10
	} else {
		o.n, o.progs = 6000, 16
	}
}
func (o *cfgLayout) NCases(string) int { return o.n }
func (o *cfgLayout) Rule() string {
	return "a case is one layout of a configuration (shipped test configuration, optionally plus generated classes with extends chains, overloads and namespaced frames): every file renamed so that Glob order is a seeded permutation, and 0-6 classes split into 2-3 fragment files interleaved with the others (all overloads of one method name stay together, in order; in a third of the splits they are separated too, keeping their relative load order); the ti node boots on the canonical and on the permuted layout for corpus and probe programs in diagnostics, -i, the editor queries, the --llm listings and --extends (--define compared as a set of lines). non-trivial = the load order really differs from the canonical one; distinct = distinct (load-order permutation digest, split set) layouts"
}
func (o *cfgLayout) ExpectedFaults() []string {
	return []string{"rename-permutation", "split-class", "split-overloads", "generated-classes", "parents-from-several-files"}
}

// classFile is one config file decoded just enough to be re-fragmented.
type classFile struct {
	Name string
	Obj  map[string]json.RawMessage
}

func decodeCfg(files map[string][]byte) []classFile {
	names := make([]string, 0, len(files))
	for n := range files {
		names = append(names, n)
	}
	sort.Strings(names)
	var out []classFile
	for _, n := range names {
		var obj map[string]json.RawMessage
		if len(bytes.TrimSpace(files[n])) == 0 || json.Unmarshal(files[n], &obj) != nil {
			out = append(out, classFile{Name: n})
			continue
		}
		out = append(out, classFile{Name: n, Obj: obj})
	}
	return out
}

// LayoutSpec is the seeded choice: the load order and which classes are fragmented how.
type LayoutSpec struct {
	Order  []string         `json:"order"`  // fragment ids ("file" or "file#k") in load order
	Splits map[string][]int `json:"splits"` // file -> fragment index of each declaration group
	NFrag  map[string]int   `json:"nfrag"`
	// SplitOver: files whose overloads of one method name may land in different fragments.
	// Their relative order is kept (a later overload never loads before an earlier one), so
	// every method still sees its declarations in the order the unsplit class gives them.
	SplitOver map[string]bool `json:"split_over,omitempty"`
}

var splitFields = []string{"instance_methods", "class_methods", "constants", "extends", "instance_properties", "instance_variables"}

// groupsOf lists the declaration groups of a class file: (field, indexes) where all
// overloads of one method name form one group in their original order.
type declGroup struct {
	Field string
	Idx   []int
}

func groupsOf(cf classFile, perOverload bool) []declGroup {
	var out []declGroup
	for _, f := range splitFields {
		raw, ok := cf.Obj[f]
		if !ok {
			continue
		}
		var arr []json.RawMessage
		if json.Unmarshal(raw, &arr) != nil {
			continue
		}
		if f == "instance_methods" || f == "class_methods" {
			byName := map[string]int{}
			for i, el := range arr {
				var m struct {
					Name string `json:"name"`
				}
				json.Unmarshal(el, &m)
				if g, ok := byName[m.Name]; ok && !perOverload {
					out[g].Idx = append(out[g].Idx, i)
				} else {
					byName[m.Name] = len(out)
					out = append(out, declGroup{f, []int{i}})
				}
			}
		} else if f == "extends" {
			// the parents of a class are an ordered list (method resolution order): one
			// declaration, kept together in its order
			var idx []int
			for i := range arr {
				idx = append(idx, i)
			}
			if len(idx) > 0 {
				out = append(out, declGroup{f, idx})
			}
		} else {
			for i := range arr {
				out = append(out, declGroup{f, []int{i}})
			}
		}
	}
	return out
}

// applyLayout derives the permuted file set from the canonical one.
func applyLayout(canon map[string][]byte, spec *LayoutSpec) map[string][]byte {
	cfs := decodeCfg(canon)
	byName := map[string]classFile{}
	for _, cf := range cfs {
		byName[cf.Name] = cf
	}
	frags := map[string][]byte{}
	for _, cf := range cfs {
		assign, split := spec.Splits[cf.Name]
		if !split || cf.Obj == nil {
			frags[cf.Name] = canon[cf.Name]
			continue
		}
		groups := groupsOf(cf, spec.SplitOver[cf.Name])
		for k := 0; k < spec.NFrag[cf.Name]; k++ {
			obj := map[string]json.RawMessage{}
			for key, v := range cf.Obj {
				isSplit := false
				for _, f := range splitFields {
					if f == key {
						isSplit = true
					}
				}
				if !isSplit {
					obj[key] = v
				}
			}
			for _, f := range splitFields {
				raw, ok := cf.Obj[f]
				if !ok {
					continue
				}
				var arr []json.RawMessage
				json.Unmarshal(raw, &arr)
				var keep []json.RawMessage
				for gi, g := range groups {
					if g.Field != f || gi >= len(assign) || assign[gi] != k {
						continue
					}
					for _, i := range g.Idx {
						keep = append(keep, arr[i])
					}
				}
				if keep != nil {
					b, _ := json.Marshal(keep)
					obj[f] = b
				}
			}
			b, _ := json.MarshalIndent(obj, "", "  ")
			frags[fmt.Sprintf("%s#%d", cf.Name, k)] = b
		}
	}
	out := map[string][]byte{}
	for i, id := range spec.Order {
		b, ok := frags[id]
		if !ok {
			continue
		}
		out[fmt.Sprintf("f%03d_%s.json", i, strings.NewReplacer(".json", "", "#", "_part").Replace(id))] = b
	}
	return out
}

// generatedClasses adds classes with extends chains, overloads and a namespaced frame.
func generatedClasses(r *Rng) map[string][]byte {
	out := map[string][]byte{}
	n := r.Range(2, 5)
	names := []string{"Gena", "Genb", "Genc", "Gend", "Gene"}[:n]
	types := []string{"Int", "String", "Float", "Bool", "Array", "Hash", "Symbol"}
	// some names are also declared by Object (to_s, inspect, ==, class, dup, nil?): a class or
	// its parent then overrides them with another signature, and which one a call resolves
	// to must not depend on the layout
	mnames := []string{"alpha", "beta", "gamma", "to_s", "size", "name", "inspect", "==", "class", "dup", "nil?", "to_s", "inspect"}
	for i, nm := range names {
		type arg struct {
			Type []string `json:"type"`
			Key  string   `json:"key,omitempty"`
		}
		type meth struct {
			Name string `json:"name"`
			Args []arg  `json:"arguments"`
			Ret  struct {
				Type []string `json:"type"`
			} `json:"return_type"`
		}
		mk := func() []meth {
			var ms []meth
			for k := 0; k < r.Range(1, 4); k++ {
				m := meth{Name: r.Pick(mnames)}
				for a := 0; a < r.Intn(3); a++ {
					m.Args = append(m.Args, arg{Type: []string{r.Pick(types)}})
				}
				if r.Chance(1, 3) {
					// keyword parameters: the same keyword name with another type in a parent,
					// a child or an overload is one declaration each, whatever loads first
					for _, kw := range []string{"limit:", "mode:"}[:r.Range(1, 2)] {
						m.Args = append(m.Args, arg{Type: []string{r.Pick(types)}, Key: kw})
					}
				}
				if m.Args == nil {
					m.Args = []arg{}
				}
				m.Ret.Type = []string{r.Pick(types)}
				ms = append(ms, m)
				if r.Chance(1, 3) { // an overload of the same name
					o := m
					o.Args = append(append([]arg(nil), m.Args...), arg{Type: []string{r.Pick(types)}})
					o.Ret.Type = []string{r.Pick(types)}
					ms = append(ms, o)
				}
			}
			return ms
		}
		cms := mk()
		var newM meth
		newM.Name, newM.Args = "new", []arg{}
		newM.Ret.Type = []string{nm}
		cms = append(cms, newM) // so that probe programs can make receivers of generated classes
		obj := map[string]any{"frame": "Builtin", "class": nm, "instance_methods": mk(), "class_methods": cms}
		if i > 0 && r.Chance(2, 3) {
			obj["extends"] = []string{names[r.Intn(i)]}
		}
		if r.Chance(1, 3) {
			obj["constants"] = []map[string]any{{"name": "LIMIT", "return_type": map[string]any{"type": []string{"Int"}}}}
		}
		b, _ := json.MarshalIndent(obj, "", "  ")
		out["zz_gen_"+strings.ToLower(nm)+".json"] = b
		if i == 0 && r.Chance(1, 4) {
			// an extension file that reopens a shipped class (Object, Integer, String) and makes
			// it extend the generated class: the generated class is, implicitly, an Object too,
			// so the parent graph has a cycle whose edges arrive in file order
			ext := map[string]any{"frame": "Builtin", "class": r.Pick([]string{"", "", "Integer", "String"}), "extends": []string{nm}, "instance_methods": []meth{}, "class_methods": []meth{}}
			eb, _ := json.MarshalIndent(ext, "", "  ")
			out[r.Pick([]string{"aa_ext_", "zz_ext_"})+strings.ToLower(nm)+".json"] = eb
		}
		if i == 0 && r.Chance(1, 3) {
			// a class of the same name in a second frame, with methods of its own: which frame a
			// bare reference to the name means is a property of the declarations, not of the
			// order in which their files arrive
			twin := map[string]any{"frame": "Builtin::Geo", "class": nm, "instance_methods": mk(), "class_methods": []meth{newM}}
			tb, _ := json.MarshalIndent(twin, "", "  ")
			out["zz_geo_"+strings.ToLower(nm)+".json"] = tb
		}
	}
	return out
}

// hasOverloads reports whether a class file declares one method name more than once.
func hasOverloads(cf classFile) bool {
	return len(groupsOf(cf, true)) > len(groupsOf(cf, false))
}

func probeProgram(r *Rng, cfg map[string][]byte, focus map[string]bool) []byte {
	bs := builtinsOf(cfg)
	// methods of the classes whose declarations were fragmented, overloaded ones first
	var fbs []BuiltinMethod
	count := map[string]int{}
	for _, b := range bs {
		count[b.Class+"|"+b.Name]++
	}
	for _, b := range bs {
		if focus[b.Class] {
			fbs = append(fbs, b)
			if count[b.Class+"|"+b.Name] > 1 {
				fbs = append(fbs, b, b)
			}
		}
	}
	var sb strings.Builder
	for k := 0; k < r.Range(6, 16) && len(bs) > 0; k++ {
		g := &Gen{r: r, builtins: bs}
		if len(fbs) > 0 && r.Chance(1, 2) {
			g.builtins = fbs
		}
		sb.WriteString("v" + fmt.Sprint(k) + " = " + g.builtinCall() + "\n")
		if r.Chance(1, 2) {
			sb.WriteString("v" + fmt.Sprint(k) + "." + r.Pick([]string{"to_s", "size", "alpha", "beta", "name", "zork"}) + "\n")
		}
		if r.Chance(1, 4) {
			// keyword calls on instances of generated classes (a child, its parent)
			recv := r.Pick([]string{"Gena.new", "Genb.new", "Genc.new", "Gend.new"})
			m := r.Pick([]string{"alpha", "beta", "gamma", "size", "name"})
			sb.WriteString(fmt.Sprintf("k%d = %s.%s(%s)\nk%d.zork\n", k, recv, m, r.Pick([]string{"limit: 1", "limit: \"s\"", "mode: 1.5", "limit: 1, mode: :s", "1, limit: true", "mode: [1]"}), k))
		}
		if r.Chance(1, 5) {
			// a user class that inherits from (or includes) a configured class and uses what it
			// inherits: the parent is named by its bare class name
			parent := r.Pick([]string{"Gena", "Genb", "Genc", "Integer", "String", "Array", "Parent", "Child"})
			m := r.Pick([]string{"alpha", "beta", "gamma", "size", "name", "to_s", "inspect"})
			sb.WriteString(fmt.Sprintf("class Usr%d < %s\n  def probe\n    q = %s\n    q.zork\n  end\nend\nu%d = Usr%d.new\nz%d = u%d.%s\nz%d.zork\n", k, parent, m, k, k, k, k, m, k))
		}
		if r.Chance(1, 3) {
			// methods Object declares, called on instances of generated classes (which may
			// override them, directly or in a parent): the undefined follow-up call makes the
			// diagnostic name the type the call resolved to
			recv := r.Pick([]string{"Gena.new", "Genb.new", "Genc.new", "Gend.new", "Gene.new"})
			m := r.Pick([]string{"to_s", "inspect", "class", "dup", "nil?", "alpha", "beta", "size", "name"})
			sb.WriteString(fmt.Sprintf("o%d = %s.%s\no%d.zork\n", k, recv, m, k))
			if r.Chance(1, 2) {
				sb.WriteString(fmt.Sprintf("e%d = %s == %s\ne%d.zork\n", k, recv, g.lit(), k))
			}
		}
		if r.Chance(1, 2) {
			// a method declared for one class called on a receiver of another: declarations
			// must not leak between classes whatever the load order
			m := bs[r.Intn(len(bs))]
			recv := r.Pick([]string{"1", "1.5", "\"s\"", "[1]", "{a: 1}", ":s", "nil", "(1..2)", "true", "Gena.new", "Genb.new", "Genc.new", "Gend.new", "Gene.new",
				"Integer", "String", "Array", "Hash", "Gena", "Genb", "Math", "Dir", "Object", "Symbol", "Float", "Range", "Proc"})
			args := make([]string, 0, m.MinArgs)
			for a := 0; a < m.MinArgs; a++ {
				args = append(args, g.lit())
			}
			sb.WriteString("w" + fmt.Sprint(k) + " = " + recv + "." + m.Name + "(" + strings.Join(args, ", ") + ")\n")
			if r.Chance(1, 2) {
				sb.WriteString("w" + fmt.Sprint(k) + ".zork\n")
			}
		}
	}
	return []byte(sb.String())
}

func (o *cfgLayout) Make(c *Ctx, i int) *Case {
	r := Stream(c.Seed, "C19", i, "case")
	canon := map[string][]byte{}
	for n, b := range c.ShippedCfg {
		canon[n] = b
	}
	cs := &Case{Prop: "C19", Kind: "layout", Index: i, Cfg: "canon", Meta: map[string]string{}}
	if r.Chance(1, 2) {
		for n, b := range generatedClasses(r) {
			canon[n] = b
		}
		cs.Faults = append(cs.Faults, "generated-classes")
	}
	cfs := decodeCfg(canon)
	spec := &LayoutSpec{Splits: map[string][]int{}, NFrag: map[string]int{}}
	nsplit := 0
	if !r.Chance(1, 4) {
		nsplit = r.Range(1, 6)
	}
	var withOver []classFile
	for _, cf := range cfs {
		if cf.Obj != nil && hasOverloads(cf) {
			withOver = append(withOver, cf)
		}
	}
	focus := map[string]bool{}
	for s := 0; s < nsplit; s++ {
		cf := cfs[r.Intn(len(cfs))]
		if len(withOver) > 0 && r.Chance(1, 2) {
			cf = withOver[r.Intn(len(withOver))]
		}
		if cf.Obj == nil {
			continue
		}
		if _, done := spec.Splits[cf.Name]; done {
			continue
		}
		var cn string
		json.Unmarshal(cf.Obj["class"], &cn)
		focus[cn] = true
		over := r.Chance(1, 3) || (hasOverloads(cf) && r.Chance(1, 2))
		g := groupsOf(cf, over)
		if len(g) < 2 {
			continue
		}
		k := r.Range(2, 3)
		assign := make([]int, len(g))
		for j := range assign {
			assign[j] = r.Intn(k)
		}
		assign[0], assign[len(assign)-1] = 0, k-1
		if over {
			// overloads of one name: fragment indexes non-decreasing in declaration order
			last := map[string]int{}
			for j, grp := range g {
				if grp.Field != "instance_methods" && grp.Field != "class_methods" {
					continue
				}
				var arr []json.RawMessage
				json.Unmarshal(cf.Obj[grp.Field], &arr)
				var m struct {
					Name string `json:"name"`
				}
				json.Unmarshal(arr[grp.Idx[0]], &m)
				key := grp.Field + "|" + m.Name
				if prev, ok := last[key]; ok && assign[j] < prev {
					assign[j] = prev
				}
				last[key] = assign[j]
			}
			if spec.SplitOver == nil {
				spec.SplitOver = map[string]bool{}
			}
			spec.SplitOver[cf.Name] = true
			cs.Faults = append(cs.Faults, "split-overloads")
		}
		spec.Splits[cf.Name] = assign
		spec.NFrag[cf.Name] = k
	}
	var ids []string
	for _, cf := range cfs {
		if k, ok := spec.NFrag[cf.Name]; ok {
			for j := 0; j < k; j++ {
				ids = append(ids, fmt.Sprintf("%s#%d", cf.Name, j))
			}
		} else {
			ids = append(ids, cf.Name)
		}
	}
	for j := len(ids) - 1; j > 0; j-- {
		k := r.Intn(j + 1)
		ids[j], ids[k] = ids[k], ids[j]
	}
	// files that each contribute parents (extends) to one and the same class keep their relative
	// load order: a parent list is an ordered declaration, and the order between two lists
	// that are declared separately is given by nothing but the order of arrival, so the check
	// must not demand that it does not matter
	{
		byClass := map[string][]string{}
		for _, cf := range cfs {
			if cf.Obj == nil {
				continue
			}
			var ext []string
			if json.Unmarshal(cf.Obj["extends"], &ext) != nil || len(ext) == 0 {
				continue
			}
			key := string(cf.Obj["frame"]) + "|" + string(cf.Obj["class"])
			byClass[key] = append(byClass[key], cf.Name)
		}
		for _, fs := range byClass {
			if len(fs) < 2 {
				continue
			}
			in := map[string]bool{}
			for _, f := range fs {
				in[f] = true
			}
			base := func(id string) string {
				if k := strings.IndexByte(id, '#'); k >= 0 {
					return id[:k]
				}
				return id
			}
			var pos []int
			var members []string
			for j, id := range ids {
				if in[base(id)] {
					pos = append(pos, j)
					members = append(members, id)
				}
			}
			rank := map[string]int{}
			for n, cf := range cfs {
				rank[cf.Name] = n
			}
			sort.SliceStable(members, func(a, b int) bool {
				if ra, rb := rank[base(members[a])], rank[base(members[b])]; ra != rb {
					return ra < rb
				}
				return members[a] < members[b]
			})
			for n, j := range pos {
				ids[j] = members[n]
			}
			cs.Faults = append(cs.Faults, "parents-from-several-files")
		}
	}
	// fragments of a class whose overloads were separated keep their relative load order
	for f := range spec.SplitOver {
		var pos []int
		for j, id := range ids {
			if strings.HasPrefix(id, f+"#") {
				pos = append(pos, j)
			}
		}
		for n, j := range pos {
			ids[j] = fmt.Sprintf("%s#%d", f, n)
		}
	}
	spec.Order = ids
	cs.Faults = append(cs.Faults, "rename-permutation")
	if len(spec.Splits) > 0 {
		cs.Faults = append(cs.Faults, "split-class")
	}
	sb, _ := json.Marshal(spec)
	cs.Meta["spec"] = string(sb)
	cs.Configs = map[string]map[string][]byte{"canon": canon, "layout": applyLayout(canon, spec)}
	for p := 0; p < o.progs; p++ {
		var src []byte
		var origin string
		if p%3 == 2 {
			src, origin = probeProgram(r, canon, focus), "probe"
		} else {
			pr := c.Corpus[r.Intn(len(c.Corpus))]
			src, origin = pr.Src, "corpus:"+pr.Name
		}
		argv := []string{target}
		switch r.Intn(9) {
		case 0, 1, 2:
			argv = append(argv, "-i")
		case 3, 4:
			// every other way of looking at the same analysis: the editor queries and the
			// listings print what was loaded (parent lists, signatures, documents)
			argv = append(argv, c05Modes(r, src)...)
		case 5:
			// the parents of a class whose declarations were fragmented (or of any class)
			cls := "Integer"
			for cn := range focus {
				cls = cn
				break
			}
			if r.Chance(1, 3) {
				cls = r.Pick([]string{"Integer", "String", "Array", "Hash", "Object", "Gena", "Genb", "Genc", "Float", "Symbol"})
			}
			argv = append(argv, "--extends", "--class="+cls)
		}
		seed := r.U64()
		cs.Steps = append(cs.Steps,
			Step{Node: "ti", Files: map[string][]byte{target: src}, Argv: argv, Seed: seed, Sched: "seeded", Cfg: "canon", Note: origin},
			Step{Node: "ti", Argv: argv, Seed: seed, Sched: "seeded", Cfg: "layout", Note: origin})
	}
	return cs
}

func (o *cfgLayout) Judge(c *Ctx, w *Worker, cs *Case) *Finding {
	layoutID := c.cfgID(cs, "layout")
	canonID := c.cfgID(cs, "canon")
	defer func() {
		if canonID != c.CfgShipped {
			c.World.DropConfig(canonID)
		}
		c.World.DropConfig(layoutID)
		w.cfg = "?"
	}()
	var spec LayoutSpec
	json.Unmarshal([]byte(cs.Meta["spec"]), &spec)
	kind := "rename"
	if len(spec.Splits) > 0 {
		kind = "split"
	}
	c.Stats.Cell(fmt.Sprintf("%x|%d", hashStr(strings.Join(spec.Order, ",")), len(spec.Splits)))
	for i := 0; i+1 < len(cs.Steps); i += 2 {
		a, _ := c.RunTi(w, cs, i, false)
		b, _ := c.RunTi(w, cs, i+1, true)
		c.Stats.Inc("program_pairs")
		if a.Status != "exit" && a.Status == b.Status {
			continue // crash / hang of the program itself: C01 / C02
		}
		argv := cs.Steps[i].Argv
		if a.Status != b.Status || a.Exit != b.Exit || normaliseOut(argv, a.Stdout) != normaliseOut(argv, b.Stdout) {
			cs.Meta["failing_pair"] = fmt.Sprint(i)
			d := firstDiff(normaliseOut(argv, a.Stdout), normaliseOut(argv, b.Stdout))
			if a.Status != b.Status {
				d = fmt.Sprintf("status %s vs %s (%s)", a.Status, b.Status, b.Panic)
			}
			shape := lineShape(strings.SplitN(d, ": ", 2)[len(strings.SplitN(d, ": ", 2))-1])
			if m := modeOf(argv); m != "diag" && m != "-i" {
				kind += ":" + m
			}
			return &Finding{Sig: "layout:" + kind + ":" + shape,
				What: fmt.Sprintf("`ti %s` on program %q prints different output on a %s layout of the same declarations: %s", strings.Join(cs.Steps[i].Argv, " "), cs.Steps[i].Note, kind, d)}
		}
	}
	return nil
}

func (o *cfgLayout) Confirm(c *Ctx, cs *Case, f *Finding) (bool, string) {
	var idx int
	fmt.Sscan(cs.Meta["failing_pair"], &idx)
	if idx+1 >= len(cs.Steps) {
		idx = 0
	}
	files := stepFiles(cs, idx)
	ra := c.RealRun("ti", c.cfgID(cs, "canon"), files, cs.Steps[idx].Argv, nil)
	rb := c.RealRun("ti", c.cfgID(cs, "layout"), files, cs.Steps[idx].Argv, nil)
	argv := cs.Steps[idx].Argv
	if normaliseOut(argv, ra.Stdout) == normaliseOut(argv, rb.Stdout) && ra.Exit == rb.Exit {
		return false, "plain build prints the same output on both layouts"
	}
	return true, "plain build, real processes: output differs between the canonical and the permuted layout: " + firstDiff(normaliseOut(argv, ra.Stdout), normaliseOut(argv, rb.Stdout))
}

func (o *cfgLayout) Shrinks(c *Ctx, cs *Case) []*Case {
	var out []*Case
	var idx int
	fmt.Sscan(cs.Meta["failing_pair"], &idx)
	if len(cs.Steps) > 2 && idx+1 < len(cs.Steps) {
		n := cloneCase(cs)
		n.Steps = []Step{cs.Steps[idx], cs.Steps[idx+1]}
		n.Steps[0].Files = stepFiles(cs, idx)
		n.Meta["failing_pair"] = "0"
		return []*Case{n}
	}
	var spec LayoutSpec
	json.Unmarshal([]byte(cs.Meta["spec"]), &spec)
	canon := cs.Configs["canon"]
	rebuild := func(canon map[string][]byte, sp *LayoutSpec) *Case {
		n := cloneCase(cs)
		sb, _ := json.Marshal(sp)
		n.Meta["spec"] = string(sb)
		n.Configs = map[string]map[string][]byte{"canon": canon, "layout": applyLayout(canon, sp)}
		return n
	}
	// undo one split
	for f := range spec.Splits {
		sp := LayoutSpec{Splits: map[string][]int{}, NFrag: map[string]int{}, SplitOver: spec.SplitOver}
		for g, a := range spec.Splits {
			if g != f {
				sp.Splits[g], sp.NFrag[g] = a, spec.NFrag[g]
			}
		}
		first := true
		for _, id := range spec.Order {
			if strings.HasPrefix(id, f+"#") {
				if first {
					sp.Order = append(sp.Order, f)
					first = false
				}
				continue
			}
			sp.Order = append(sp.Order, id)
		}
		out = append(out, rebuild(canon, &sp))
	}
	// drop one class file from the configuration altogether
	names := make([]string, 0, len(canon))
	for n := range canon {
		names = append(names, n)
	}
	sort.Strings(names)
	for _, f := range names {
		nc := map[string][]byte{}
		for n, b := range canon {
			if n != f {
				nc[n] = b
			}
		}
		sp := LayoutSpec{Splits: map[string][]int{}, NFrag: map[string]int{}, SplitOver: spec.SplitOver}
		for g, a := range spec.Splits {
			if g != f {
				sp.Splits[g], sp.NFrag[g] = a, spec.NFrag[g]
			}
		}
		for _, id := range spec.Order {
			if id != f && !strings.HasPrefix(id, f+"#") {
				sp.Order = append(sp.Order, id)
			}
		}
		out = append(out, rebuild(nc, &sp))
	}
	// move one fragment back toward its canonical position (sort a suffix)
	for _, b := range shrinkBytes(cs.Steps[0].Files[target]) {
		n := cloneCase(cs)
		n.Steps[0].Files[target] = b
		out = append(out, n)
	}
	return out
}

func (o *cfgLayout) Describe(cs *Case) any {
	var spec LayoutSpec
	json.Unmarshal([]byte(cs.Meta["spec"]), &spec)
	ord := spec.Order
	if len(ord) > 10 {
		ord = append(append([]string{}, ord[:10]...), fmt.Sprintf("... %d more", len(spec.Order)-10))
	}
	var progs []string
	for i := 0; i < len(cs.Steps); i += 2 {
		progs = append(progs, cs.Steps[i].Note+" "+strings.Join(cs.Steps[i].Argv[1:], " "))
	}
	return map[string]any{"faults": cs.Faults, "load_order_head": ord, "splits": spec.Splits, "programs": progs, "files_in_layout": len(cs.Configs["layout"])}
}
