package main

import (
	"bufio"
	"bytes"
	"crypto/sha256"
	"encoding/hex"
	"encoding/json"
	"fmt"
	"io"
	"os"
	"os/exec"
	"path/filepath"
	"sort"
	"strconv"
	"strings"
	"sync"
	"sync/atomic"
	"syscall"
	"time"
)

// ---- wire types (mirror simrt.Scenario / simrt.Result) -------------------------------

type Scenario struct {
	ID       string            `json:"id,omitempty"`
	Dir      string            `json:"dir"`
	Argv     []string          `json:"argv"`
	Env      map[string]string `json:"env,omitempty"`
	Seed     uint64            `json:"seed"`
	Sched    string            `json:"sched"`
	Only     []int             `json:"only,omitempty"`
	Budget   int64             `json:"budget"`
	NsTick   int64             `json:"ns_tick,omitempty"`
	MaxDepth int               `json:"max_depth,omitempty"`
	Payload  json.RawMessage   `json:"payload,omitempty"`
}

type SiteStat struct {
	Site   int    `json:"site"`
	Visits int    `json:"visits"`
	MaxN   int    `json:"max_n"`
	Rot    int    `json:"rot"`
	Perm   int    `json:"perm"`
	Ord    uint64 `json:"ord"`
}

type Result struct {
	ID         string          `json:"id,omitempty"`
	Status     string          `json:"status"` // exit | panic | timeout | budget | recursion | fatal | stuck
	Exit       int             `json:"exit"`
	Stdout     []byte          `json:"stdout"`
	Stderr     []byte          `json:"stderr"`
	Ticks      int64           `json:"ticks"`
	Panic      string          `json:"panic,omitempty"`
	PanicAt    []string        `json:"panic_at,omitempty"`
	PanicS     string          `json:"panic_s,omitempty"`
	HangAt     string          `json:"hang_at,omitempty"`
	EvHash     string          `json:"evhash"`
	MapEvts    int             `json:"map_evts"`
	SchedEvts  int             `json:"sched_evts"`
	Goroutines int             `json:"goroutines"`
	Timers     int             `json:"timers"`
	Fired      int             `json:"fired"`
	Sites      []SiteStat      `json:"sites,omitempty"`
	Extra      json.RawMessage `json:"extra,omitempty"`
	Retire     bool            `json:"retire,omitempty"`
}

// Job is what oracles hand to a worker: a disk image plus one process invocation.
type Job struct {
	Node    string            // ti | rbs2json | c2json | lexsim
	Cfg     string            // config id (see World.AddConfig); "" = no .ti-config
	Files   map[string][]byte // written into the worker's private directory before the run
	Keep    bool              // keep files of the previous job of this worker (pipelines)
	Argv    []string          // argv[1:]
	Env     map[string]string
	Seed    uint64
	Sched   string
	Only    []int
	Budget  int64
	NsTick  int64
	Payload json.RawMessage
}

// ---- the simulated disk ------------------------------------------------------------

// World owns the scratch directory: config images (content-addressed) and one private
// directory per worker, whose whole content the driver writes before each run.
type World struct {
	root string
	mu   sync.Mutex
	cfgs map[string]string // id -> dir
}

func NewWorld(root string) *World {
	os.MkdirAll(filepath.Join(root, "cfg"), 0755)
	return &World{root: root, cfgs: map[string]string{}}
}

// AddConfig stores a config image (file name -> content) and returns its id.
func (w *World) AddConfig(files map[string][]byte) string {
	names := make([]string, 0, len(files))
	for n := range files {
		names = append(names, n)
	}
	sort.Strings(names)
	h := sha256.New()
	for _, n := range names {
		fmt.Fprintf(h, "%s\x00%d\x00", n, len(files[n]))
		h.Write(files[n])
	}
	id := hex.EncodeToString(h.Sum(nil))[:16]
	w.mu.Lock()
	defer w.mu.Unlock()
	if _, ok := w.cfgs[id]; ok {
		return id
	}
	dir := filepath.Join(w.root, "cfg", id)
	os.MkdirAll(dir, 0755)
	for _, n := range names {
		if err := os.WriteFile(filepath.Join(dir, n), files[n], 0644); err != nil {
			infra("write config: %v", err)
		}
	}
	w.cfgs[id] = dir
	return id
}

func (w *World) CfgDir(id string) string {
	w.mu.Lock()
	defer w.mu.Unlock()
	return w.cfgs[id]
}

func (w *World) DropConfig(id string) {
	w.mu.Lock()
	dir := w.cfgs[id]
	delete(w.cfgs, id)
	w.mu.Unlock()
	if dir != "" {
		os.RemoveAll(dir)
	}
}

func readDirFiles(dir string) map[string][]byte {
	out := map[string][]byte{}
	ents, err := os.ReadDir(dir)
	if err != nil {
		infra("read %s: %v", dir, err)
	}
	for _, e := range ents {
		if e.Type().IsRegular() {
			b, err := os.ReadFile(filepath.Join(dir, e.Name()))
			if err != nil {
				infra("read: %v", err)
			}
			out[e.Name()] = b
		}
	}
	return out
}

// ---- workers ---------------------------------------------------------------------------

type proc struct {
	cmd    *exec.Cmd
	in     io.WriteCloser
	out    *bufio.Reader
	errBuf *bytes.Buffer
}

// Worker = one private disk directory + one warm process per node kind.
type Worker struct {
	id    int
	dir   string
	pool  *Pool
	procs map[string]*proc
	files map[string]bool
	cfg   string
}

type Pool struct {
	world    *World
	bins     map[string]string // node -> sim binary
	workers  []*Worker
	Runs     atomic.Int64
	Ticks    atomic.Int64
	Respawns atomic.Int64
	Sched    atomic.Int64 // baton hand-overs decided among >= 2 goroutines
	MapDec   atomic.Int64 // map-order decisions with >= 2 keys
	memKB    int64
}

func NewPool(world *World, bins map[string]string, n int) *Pool {
	p := &Pool{world: world, bins: bins, memKB: 6 << 20}
	for i := 0; i < n; i++ {
		dir := filepath.Join(world.root, fmt.Sprintf("wk%02d", i))
		os.MkdirAll(dir, 0755)
		p.workers = append(p.workers, &Worker{id: i, dir: dir, pool: p, procs: map[string]*proc{}, files: map[string]bool{}})
	}
	return p
}

func (p *Pool) Close() {
	for _, w := range p.workers {
		for _, pr := range w.procs {
			pr.in.Close()
			pr.cmd.Process.Kill()
			pr.cmd.Wait()
		}
		w.procs = map[string]*proc{}
	}
}

func (w *Worker) spawn(node string) *proc {
	bin := w.pool.bins[node]
	if bin == "" {
		infra("no binary for node %q", node)
	}
	// address-space cap: a runaway allocation kills the worker, not the machine
	cmd := exec.Command("/bin/sh", "-c", fmt.Sprintf("ulimit -v %d; exec \"$0\"", w.pool.memKB), bin)
	cmd.Env = append(os.Environ(),
		"GOMAXPROCS="+envOr("VERIF_WORKER_GOMAXPROCS", "1"),
		"GOTRACEBACK=single",
		"SIMRT_OUT="+filepath.Join(w.dir, ".sim.out."+node),
		"SIMRT_ERR="+filepath.Join(w.dir, ".sim.err."+node))
	cmd.Dir = w.dir
	in, _ := cmd.StdinPipe()
	out, _ := cmd.StdoutPipe()
	eb := &bytes.Buffer{}
	cmd.Stderr = eb
	cmd.SysProcAttr = &syscall.SysProcAttr{Pdeathsig: syscall.SIGKILL}
	if err := cmd.Start(); err != nil {
		infra("spawn %s: %v", bin, err)
	}
	return &proc{cmd: cmd, in: in, out: bufio.NewReaderSize(out, 1<<20), errBuf: eb}
}

func envOr(k, d string) string {
	if v := os.Getenv(k); v != "" {
		return v
	}
	return d
}

// Prepare writes the job's disk image into the worker's private directory.
func (w *Worker) Prepare(j *Job) {
	if !j.Keep {
		// a new scenario starts from an empty disk: everything the previous one wrote or the
		// node itself created (output files, a cache a future version might keep) goes away
		if ents, err := os.ReadDir(w.dir); err == nil {
			for _, e := range ents {
				n := e.Name()
				if n == ".ti-config" || strings.HasPrefix(n, ".sim.") {
					continue
				}
				if _, again := j.Files[n]; again && !e.IsDir() {
					continue
				}
				os.RemoveAll(filepath.Join(w.dir, n))
			}
		}
		w.files = map[string]bool{}
	}
	for f, b := range j.Files {
		p := filepath.Join(w.dir, f)
		if strings.Contains(f, "/") {
			os.MkdirAll(filepath.Dir(p), 0755)
		}
		mode := os.FileMode(0644)
		if strings.HasPrefix(f, "bin/") {
			mode = 0755 // stand-in executables (the stub `ruby`)
		}
		if err := os.WriteFile(p, b, mode); err != nil {
			infra("write %s: %v", p, err)
		}
		w.files[f] = true
	}
	if j.Cfg != w.cfg {
		link := filepath.Join(w.dir, ".ti-config")
		os.Remove(link)
		if j.Cfg != "" {
			dir := w.pool.world.CfgDir(j.Cfg)
			if dir == "" {
				infra("unknown config %q", j.Cfg)
			}
			if err := os.Symlink(dir, link); err != nil {
				infra("symlink: %v", err)
			}
		}
		w.cfg = j.Cfg
	}
}

func firstSeg(p string) string {
	if i := strings.IndexByte(p, '/'); i >= 0 {
		return p[:i]
	}
	return p
}

// Exec runs one simulated process lifetime and returns what happened.
func (w *Worker) Exec(j *Job) Result {
	w.Prepare(j)
	sc := Scenario{Dir: w.dir, Argv: append([]string{j.Node}, j.Argv...), Env: j.Env, Seed: j.Seed, Sched: j.Sched,
		Only: j.Only, Budget: j.Budget, NsTick: j.NsTick, Payload: j.Payload}
	if sc.Sched == "" {
		sc.Sched = "canon"
	}
	if len(j.Env) > 0 {
		sc.Env = map[string]string{}
		for k, v := range j.Env {
			sc.Env[k] = strings.ReplaceAll(v, "$WORKDIR", w.dir)
		}
	}
	line, _ := json.Marshal(sc)
	line = append(line, '\n')
	pr := w.procs[j.Node]
	if pr == nil {
		pr = w.spawn(j.Node)
		w.procs[j.Node] = pr
	}
	w.pool.Runs.Add(1)
	var res Result
	if traceSlowMs > 0 {
		t0 := time.Now()
		defer func() {
			if d := time.Since(t0); d > time.Duration(traceSlowMs)*time.Millisecond {
				fmt.Fprintf(os.Stderr, "SLOWRUN %v node=%s argv=%v sched=%s status=%s ticks=%d goroutines=%d retire=%v\n", d.Round(time.Millisecond), j.Node, j.Argv, j.Sched, res.Status, res.Ticks, res.Goroutines, res.Retire)
			}
		}()
	}
	_, werr := pr.in.Write(line)
	var rerr error
	var resp []byte
	if werr == nil {
		resp, rerr = pr.out.ReadBytes('\n')
	}
	if werr != nil || rerr != nil {
		// the worker process died: fatal error, OOM kill, un-rewritten exit path
		pr.in.Close()
		err := pr.cmd.Wait()
		code := -1
		if ee, ok := err.(*exec.ExitError); ok {
			code = ee.ExitCode()
		}
		delete(w.procs, j.Node)
		w.pool.Respawns.Add(1)
		ob, _ := os.ReadFile(filepath.Join(w.dir, ".sim.out."+j.Node))
		eb, _ := os.ReadFile(filepath.Join(w.dir, ".sim.err."+j.Node))
		eb = append(eb, pr.errBuf.Bytes()...)
		res = Result{Status: "fatal", Exit: code, Stdout: ob, Stderr: eb}
		res.Panic = fatalClass(string(eb))
		return res
	}
	if err := json.Unmarshal(resp, &res); err != nil {
		infra("bad worker response: %v: %.200s", err, resp)
	}
	if res.Retire {
		pr.in.Close()
		pr.cmd.Wait()
		delete(w.procs, j.Node)
		w.pool.Respawns.Add(1)
	}
	if res.Status == "timeout" && !bytes.HasSuffix(bytes.TrimRight(res.Stdout, "\n"), []byte("timeout")) {
		// a timer fired during the run, but the process did not end the way the properties
		// define a hang (it printed `timeout`): some other timer, or the worker finished and
		// exited before main's select got to run
		res.Status = "exit"
	}
	if res.Status == "stuck" {
		// nothing ticked, nothing was schedulable and nothing exited for 90 s of real time:
		// the simulator lost track of the run. That is trouble of the machinery, never a verdict.
		infra("simulated run got stuck (node=%s argv=%v sched=%s seed=%d ticks=%d goroutines=%d)", j.Node, j.Argv, j.Sched, j.Seed, res.Ticks, res.Goroutines)
	}
	w.pool.Ticks.Add(res.Ticks)
	w.pool.Sched.Add(int64(res.SchedEvts))
	w.pool.MapDec.Add(int64(res.MapEvts))
	return res
}

// traceSlowMs (VERIF_TRACE_SLOW=<ms>) prints simulated runs that take longer in real time: a
// maintenance aid, it changes nothing a run does.
var traceSlowMs, _ = strconv.Atoi(os.Getenv("VERIF_TRACE_SLOW"))

func fatalClass(stderr string) string {
	for _, l := range strings.Split(stderr, "\n") {
		if strings.HasPrefix(l, "fatal error:") || strings.HasPrefix(l, "panic:") || strings.HasPrefix(l, "runtime:") {
			return strings.TrimSpace(l)
		}
	}
	if len(stderr) > 100 {
		stderr = stderr[:100]
	}
	return "worker died: " + strings.TrimSpace(stderr)
}

// ParallelFor runs f(worker, i) for i in [0,n) over all workers; order of completion is
// irrelevant to results because every case derives its choices from (seed, i) only.
func (p *Pool) ParallelFor(n int, f func(w *Worker, i int)) {
	var next atomic.Int64
	var wg sync.WaitGroup
	for _, w := range p.workers {
		wg.Add(1)
		go func(w *Worker) {
			defer wg.Done()
			for {
				i := int(next.Add(1) - 1)
				if i >= n || deadlinePassed() {
					return
				}
				f(w, i)
			}
		}(w)
	}
	wg.Wait()
}

// One returns worker 0 for sequential work (minimisation, stage-2 hang decisions, replay).
func (p *Pool) One() *Worker { return p.workers[0] }
