package simrt

// Unsynchronised map access between goroutines.
//
// The Go runtime ends a process ("fatal error: concurrent map writes" / "concurrent map read
// and map write") when a map is written while another goroutine reads or writes it. Under the
// baton only one goroutine runs at a time, so the runtime's own check can never fire in the
// simulator; what can be observed instead is the absence of a happens-before edge:
//
//   - every goroutine remembers the maps it has read or written since its last *release*
//     (channel operation, close, Unlock / RUnlock, WaitGroup.Done, Cond.Signal / Broadcast,
//     the end of a Once function, a sync/atomic or context call, a go statement);
//   - an access that conflicts (same map, at least one write) with such a remembered access
//     of ANOTHER goroutine is not ordered after it: the other goroutine has released nothing
//     since, so no synchronisation can have carried its access over. In a real process the two
//     could have run at the same instant.
//
// The rule is sound with respect to the operations siminstr knows as releases (listed in
// DESIGN.md); it reports nothing for accesses that are ordered by them. It is incomplete on
// purpose: it looks only at maps (what the runtime itself polices), and it is switched on only
// while more than one goroutine of the simulated process can be running ruby-ti code.

import (
	"sync/atomic"
	"unsafe"
)

type mapAcc struct {
	id    uintptr
	wrote bool
}

const maxRecent = 24

func mapID[M ~map[K]V, K comparable, V any](m M) uintptr {
	return *(*uintptr)(unsafe.Pointer(&m))
}

// MapRead / MapWrite are what siminstr wraps the map operand of an index expression in.
func MapRead[M ~map[K]V, K comparable, V any](m M) M {
	if r := cur; r != nil && atomic.LoadInt32(&r.raceOn) != 0 {
		r.mapAccess(mapID(m), false)
	}
	return m
}

func MapWrite[M ~map[K]V, K comparable, V any](m M) M {
	if r := cur; r != nil && atomic.LoadInt32(&r.raceOn) != 0 {
		r.mapAccess(mapID(m), true)
	}
	return m
}

// raceUpdate recomputes whether accesses have to be tracked (called with smu held).
func (r *run) raceUpdate() {
	on := int32(0)
	if r.sch.alive >= 3 || r.sch.alive-r.sch.inBlock >= 2 {
		on = 1
	}
	atomic.StoreInt32(&r.raceOn, on)
}

func (r *run) mapAccess(id uintptr, write bool) {
	if id == 0 || r.exited {
		return
	}
	r.smu.Lock()
	g := r.sch.holder
	if g == nil {
		r.smu.Unlock()
		return
	}
	var other *gstate
	for _, o := range r.sch.all {
		if o == g {
			continue
		}
		for _, a := range o.recent {
			if a.id == id && (a.wrote || write) {
				other = o
				break
			}
		}
		if other != nil {
			break
		}
	}
	found := false
	for i := range g.recent {
		if g.recent[i].id == id {
			g.recent[i].wrote = g.recent[i].wrote || write
			found = true
			break
		}
	}
	if !found && len(g.recent) < maxRecent {
		g.recent = append(g.recent, mapAcc{id, write})
	}
	r.smu.Unlock()
	if other == nil {
		return
	}
	kind := "concurrent map read and map write"
	if write {
		for _, a := range other.recent {
			if a.id == id && a.wrote {
				kind = "concurrent map writes"
			}
		}
	}
	fr := tiFrames(2, 200)
	if len(fr) > 4 {
		fr = fr[:4]
	}
	r.mu.Lock()
	already := r.exited
	if !already {
		r.panicC = "fatal error: " + kind
		r.panicAt = fr
		r.panicS = "fatal error: " + kind + " (goroutines " + itoa(g.id) + " and " + itoa(other.id) + " access one map with no synchronisation between the accesses)"
	}
	r.mu.Unlock()
	if !already {
		r.evAdd(0x7261, uint64(g.id), uint64(other.id))
		if r.finish("panic", 2) {
			// like a runtime fatal error: nothing of this process runs on
			Goexit()
		}
	}
}

func itoa(i int) string {
	if i == 0 {
		return "0"
	}
	s := ""
	for ; i > 0; i /= 10 {
		s = string(rune('0'+i%10)) + s
	}
	return s
}

// Release forgets the caller's remembered accesses: whatever it does next (the release
// operation siminstr found) publishes them.
func Release() {
	r := cur
	if r == nil {
		return
	}
	r.smu.Lock()
	if g := r.sch.holder; g != nil {
		g.recent = g.recent[:0]
	}
	r.smu.Unlock()
}

// Rel wraps the function value of a release operation: Release, then the operation.
func Rel[F any](f F) F {
	Release()
	return f
}
