package simrt

// Seeded goroutine scheduler.
//
// Every goroutine the instrumented code starts (go statement -> simrt.Go) runs under a
// baton: exactly one of them executes ruby-ti code at any time. The baton changes hands
// only at scheduling points, and at each of them the simulator — not the Go runtime —
// picks who runs next, from the run's PRNG:
//
//   - a goroutine is created, or ends;
//   - a goroutine is about to perform an operation that may block (channel send / receive,
//     select, range over a channel, sync.WaitGroup.Wait, sync.Mutex.Lock, ...): siminstr
//     brackets the statement with BeginBlock / EndBlock, the baton is released for the
//     duration of the real operation and re-acquired afterwards;
//   - a quantum of ticks has elapsed while more than one goroutine is alive (simulated
//     preemption at a seeded, replayable instant).
//
// Before a pick the arbiter waits for quiescence: it yields the (single) processor until
// the set of goroutines waiting for the baton has stopped changing, so that every
// goroutine that the last action made runnable is a candidate. Workers run with
// GOMAXPROCS=1, which makes that wait, and therefore the candidate set, reproducible.

import (
	"math/rand"
	randv2 "math/rand/v2"
	"runtime"
	"sort"
)

type gstate struct {
	id   int
	wake chan struct{}
	run  *run // the simulated process this goroutine belongs to (not necessarily the current one)
	// maps read / written since this goroutine's last release operation (race.go)
	recent []mapAcc
}

type schedState struct {
	holder      *gstate
	ready       []*gstate
	nextGID     int
	alive       int
	inBlock     int       // goroutines between BeginBlock and EndBlock (off the baton, in a real blocking operation)
	all         []*gstate // every goroutine of the process that has not ended
	arbitrating bool
	decisions   int // picks among >= 2 candidates
	picks       uint64
	selects     uint64
	nextYield   int64
	dead        chan struct{}
}

func (r *run) schedInit() *gstate {
	r.sch.dead = make(chan struct{})
	g0 := &gstate{id: 0, wake: make(chan struct{}, 1), run: r}
	r.sch.nextGID = 1
	r.sch.alive = 1
	r.sch.holder = g0
	r.sch.all = []*gstate{g0}
	r.sch.nextYield = r.quantum()
	return g0
}

// quantum draws the length of the next time slice (ticks) from the PRNG.
func (r *run) quantum() int64 {
	p := prng{s: mix(r.sc.Seed ^ 0x71756e74 ^ uint64(r.sch.picks)<<20 ^ uint64(r.ticks))}
	switch r.sc.Sched {
	case "canon":
		return 1 << 40 // no simulated preemption in the canonical schedule
	case "rev":
		return 20011
	}
	return 2000 + int64(p.next()%30000)
}

// waitBaton parks g until the arbiter hands it the baton (or the run is over).
func (r *run) waitBaton(g *gstate) {
	select {
	case <-g.wake:
	case <-r.sch.dead:
		runtime.Goexit()
	}
	if r.exited {
		runtime.Goexit()
	}
}

func (r *run) enqueue(g *gstate) {
	r.smu.Lock()
	r.sch.ready = append(r.sch.ready, g)
	r.smu.Unlock()
}

func (r *run) releaseBaton() {
	r.smu.Lock()
	r.sch.holder = nil
	r.smu.Unlock()
}

// kick arbitrates if the baton is free and somebody wants it.
func (r *run) kick() {
	r.smu.Lock()
	if r.sch.holder != nil || r.sch.arbitrating || len(r.sch.ready) == 0 {
		r.smu.Unlock()
		return
	}
	r.sch.arbitrating = true
	r.smu.Unlock()

	// quiescence: let every goroutine that can reach a scheduling point get there
	last, stable := -1, 0
	for i := 0; i < 400 && stable < 4; i++ {
		runtime.Gosched()
		r.smu.Lock()
		n := len(r.sch.ready)
		r.smu.Unlock()
		if n == last {
			stable++
		} else {
			stable, last = 0, n
		}
	}

	r.smu.Lock()
	r.sch.arbitrating = false
	if r.sch.holder != nil || len(r.sch.ready) == 0 || r.exited {
		r.smu.Unlock()
		return
	}
	sort.Slice(r.sch.ready, func(a, b int) bool { return r.sch.ready[a].id < r.sch.ready[b].id })
	n := len(r.sch.ready)
	idx := 0
	if n > 1 {
		switch r.sc.Sched {
		case "rev":
			idx = n - 1
		case "seeded":
			p := prng{s: mix(r.sc.Seed ^ 0x5c4ed ^ r.sch.picks*0x9e3779b97f4a7c15)}
			idx = int(p.next() % uint64(n))
		}
		r.sch.decisions++
		r.evAdd(0x5c01, uint64(n), uint64(r.sch.ready[idx].id))
	}
	r.sch.picks++
	g := r.sch.ready[idx]
	r.sch.ready = append(r.sch.ready[:idx], r.sch.ready[idx+1:]...)
	r.sch.holder = g
	r.smu.Unlock()
	g.wake <- struct{}{}
}

// BeginBlock is called (by the goroutine holding the baton) right before an operation that
// may block. The returned token identifies the caller for EndBlock.
func BeginBlock() *gstate {
	r := cur
	if r == nil {
		return nil
	}
	if r.exited {
		runtime.Goexit()
	}
	r.smu.Lock()
	g := r.sch.holder
	r.sch.holder = nil
	if g != nil {
		r.sch.inBlock++
		r.raceUpdate()
	}
	r.smu.Unlock()
	if g == nil {
		return nil
	}
	r.kick()
	return g
}

// EndBlock is called right after the operation: the caller queues for the baton again.
func EndBlock(g *gstate) {
	if g == nil {
		return
	}
	// the goroutine's own run: it may wake up long after its simulated process has ended and
	// another one has become current; then it must unwind, not join the other's scheduler
	r := g.run
	r.smu.Lock()
	r.sch.inBlock--
	r.raceUpdate()
	r.smu.Unlock()
	if r.exited || r != cur {
		runtime.Goexit()
	}
	r.enqueue(g)
	r.kick()
	r.waitBaton(g)
}

// yield is a simulated preemption of the baton holder at a quantum boundary.
func (r *run) yield() {
	r.smu.Lock()
	g := r.sch.holder
	multi := r.sch.alive > 1
	r.smu.Unlock()
	r.sch.nextYield = r.ticks + r.quantum()
	if g == nil || !multi {
		return
	}
	r.smu.Lock()
	r.sch.holder = nil
	r.sch.ready = append(r.sch.ready, g)
	r.smu.Unlock()
	r.kick()
	r.waitBaton(g)
}

// goStart registers a new goroutine as a candidate for the baton (called by its creator).
func (r *run) goStart() *gstate {
	r.smu.Lock()
	g := &gstate{id: r.sch.nextGID, wake: make(chan struct{}, 1), run: r}
	r.sch.nextGID++
	r.sch.alive++
	r.sch.ready = append(r.sch.ready, g)
	r.sch.all = append(r.sch.all, g)
	// starting a goroutine publishes what its creator has done so far
	if h := r.sch.holder; h != nil {
		h.recent = h.recent[:0]
	}
	r.raceUpdate()
	r.smu.Unlock()
	return g
}

// goEnd is deferred in every simulated goroutine.
func (r *run) goEnd(g *gstate) {
	r.smu.Lock()
	r.sch.alive--
	if r.sch.holder == g {
		r.sch.holder = nil
	}
	for i, o := range r.sch.all {
		if o == g {
			r.sch.all = append(r.sch.all[:i], r.sch.all[i+1:]...)
			break
		}
	}
	r.raceUpdate()
	r.smu.Unlock()
	r.kick()
}

// Rand / RandV2 replace the process-wide generators of math/rand and math/rand/v2, which
// the Go runtime seeds differently in every process: here the seed is the run's.
func Rand() *rand.Rand {
	r := cur
	if r == nil {
		return rand.New(rand.NewSource(1))
	}
	r.smu.Lock()
	defer r.smu.Unlock()
	if r.rnd == nil {
		s := int64(1)
		if r.sc.Sched != "canon" {
			s = int64(mix(r.sc.Seed ^ 0x72616e64))
		}
		r.rnd = rand.New(rand.NewSource(s))
	}
	return r.rnd
}

func RandV2() *randv2.Rand {
	r := cur
	if r == nil {
		return randv2.New(randv2.NewPCG(1, 2))
	}
	r.smu.Lock()
	defer r.smu.Unlock()
	if r.rnd2 == nil {
		s := uint64(1)
		if r.sc.Sched != "canon" {
			s = mix(r.sc.Seed ^ 0x72616e64)
		}
		r.rnd2 = randv2.New(randv2.NewPCG(s, 2))
	}
	return r.rnd2
}

// ZeroOf declares a variable of a channel's element type (used by the select rewrite).
func ZeroOf[T any](ch <-chan T) (z T) { return z }

// SelectOrder is the order in which the cases of a select are polled: Go picks uniformly
// among the ready cases; here the simulator does, from the run's PRNG.
func SelectOrder(n int) []int {
	out := make([]int, n)
	for i := range out {
		out[i] = i
	}
	r := cur
	if r == nil || n < 2 {
		return out
	}
	switch r.sc.Sched {
	case "rev":
		for i, j := 0, n-1; i < j; i, j = i+1, j-1 {
			out[i], out[j] = out[j], out[i]
		}
	case "seeded":
		r.smu.Lock()
		r.sch.selects++
		k := r.sch.selects
		r.smu.Unlock()
		p := prng{s: mix(r.sc.Seed ^ 0x5e1ec7 ^ k*0x9e3779b97f4a7c15)}
		for i := n - 1; i > 0; i-- {
			j := int(p.next() % uint64(i+1))
			out[i], out[j] = out[j], out[i]
		}
	}
	return out
}

// ZeroOfSend is ZeroOf for the channel of a send statement (accepts send-only channels).
func ZeroOfSend[T any](ch chan<- T) (z T) { return z }

// Recv and Recv2 are what siminstr turns receive expressions into: the channel operand is
// evaluated by the caller under the baton, the receive itself is a scheduling point.
func Recv[T any](ch <-chan T) T {
	Release()
	g := BeginBlock()
	v := <-ch
	EndBlock(g)
	return v
}

func Recv2[T any](ch <-chan T) (T, bool) {
	Release()
	g := BeginBlock()
	v, ok := <-ch
	EndBlock(g)
	return v, ok
}

// OnceDo is what `once.Do(f)` becomes (do = once.Do): a goroutine that has to wait for
// another one's f to finish waits off the baton; f itself runs under the baton.
func OnceDo(do func(func()), f func()) {
	g := BeginBlock()
	do(func() {
		EndBlock(g)
		f()
		Release() // the end of a Once function publishes what it did
		g = BeginBlock()
	})
	EndBlock(g)
}
