// Package simrt is the simulator runtime that siminstr links into the instrumented
// scratch copy of ruby-ti (as package "ti/simrt"). It owns every source of
// nondeterminism the instrumented code can reach: map iteration order, the clock and
// its timers, process exit, goroutine panics, and the per-run reboot of package state.
//
// One Scenario = one simulated process lifetime. Everything chosen during a run derives
// from Scenario.Seed; nothing here reads a real clock or the global math/rand.
package simrt

import (
	"bufio"
	"context"
	"encoding/json"
	"flag"
	"fmt"
	"io"
	"iter"
	"math/rand"
	randv2 "math/rand/v2"
	"os"
	"regexp"
	"runtime"
	"runtime/debug"
	"sort"
	"strconv"
	"strings"
	"sync"
	"sync/atomic"
	"time"
)

// Scenario is one request to a warm worker.
type Scenario struct {
	ID       string            `json:"id,omitempty"`
	Dir      string            `json:"dir"`                 // chdir here: the private disk image
	Argv     []string          `json:"argv"`                // full argv including argv[0]
	Env      map[string]string `json:"env,omitempty"`       // environment overrides for this run
	Seed     uint64            `json:"seed"`                // the one integer
	Sched    string            `json:"sched"`               // canon | rev | seeded
	Only     []int             `json:"only,omitempty"`      // non-empty: non-canonical order only at these sites
	Budget   int64             `json:"budget"`              // hard tick cap (0 = default)
	NsTick   int64             `json:"ns_tick,omitempty"`   // virtual nanoseconds per tick (0 = timers never fire)
	MaxDepth int               `json:"max_depth,omitempty"` // call-depth cap (0 = default)
	Payload  json.RawMessage   `json:"payload,omitempty"`   // engine-specific input (lexsim)
}

// SiteStat says how often a map-range site was reached and with how many keys.
type SiteStat struct {
	Site   int    `json:"site"`
	Visits int    `json:"visits"`
	MaxN   int    `json:"max_n"`
	Rot    int    `json:"rot"`  // visits decided by the rotation model
	Perm   int    `json:"perm"` // visits decided by the permutation model
	Ord    uint64 `json:"ord"`  // hash chain of the orders chosen at this site
}

// Result is one response.
type Result struct {
	ID         string     `json:"id,omitempty"`
	Status     string     `json:"status"` // exit | panic | timeout | budget | recursion
	Exit       int        `json:"exit"`
	Stdout     []byte     `json:"stdout"`
	Stderr     []byte     `json:"stderr"`
	Ticks      int64      `json:"ticks"`
	Panic      string     `json:"panic,omitempty"`    // normalised panic class
	PanicAt    []string   `json:"panic_at,omitempty"` // innermost-first ruby-ti frames
	PanicS     string     `json:"panic_s,omitempty"`  // raw text (diagnostics only)
	HangAt     string     `json:"hang_at,omitempty"`  // loop/recursion home function
	EvHash     string     `json:"evhash"`             // hash of the event log
	MapEvts    int        `json:"map_evts"`           // map-range decisions with >= 2 keys
	SchedEvts  int        `json:"sched_evts"`         // baton hand-overs decided among >= 2 goroutines
	Goroutines int        `json:"goroutines"`         // goroutines of the simulated process
	Timers     int        `json:"timers"`             // timers registered
	Fired      int        `json:"fired"`              // timers fired by the virtual clock
	Sites      []SiteStat `json:"sites,omitempty"`
	Extra      any        `json:"extra,omitempty"`  // engine-specific output (lexsim)
	Retire     bool       `json:"retire,omitempty"` // worker exits after this response (goroutine leak)
}

type timer struct {
	at     int64
	ch     chan time.Time
	f      func()
	period int64 // > 0: a ticker, re-armed every period ticks
}

type run struct {
	sc        Scenario
	ticks     int64
	nextEvent int64
	budget    int64
	maxDepth  int
	only      map[int]bool

	mu         sync.Mutex
	exited     bool
	timedOut   bool
	wg         sync.WaitGroup
	pcs        []uintptr
	status     string
	exit       int
	panicC     string
	panicAt    []string
	panicS     string
	hangAt     string
	timers     []*timer
	nTimers    int
	nFired     int
	doneCh     chan struct{}
	samples    [][]string
	sampleFrom int64
	nextDep    int64
	guard      *guard

	smu    sync.Mutex // guards sch
	sch    schedState
	rnd    *rand.Rand
	rnd2   *randv2.Rand
	crypto uint64
	raceOn int32 // != 0: map accesses are tracked (race.go)

	ev      uint64
	mapEvts int
	sites   map[int]*SiteStat
	visits  map[int]int
	canon   map[any]string
	extra   any
}

var cur *run

const (
	defaultBudget   = 50_000_000
	defaultMaxDepth = 60_000
	depthEvery      = 1 << 15
)

// Stack samples are taken at each of the last nSamples ticks before a verdict: consecutive
// ticks cover at least one whole iteration of a tight loop, including its loop-head tick,
// where the stack ends in the loop's home function.
const nSamples = 64

func fin(z uint64) uint64 { // splitmix64 finaliser
	z = (z ^ (z >> 30)) * 0xbf58476d1ce4e5b9
	z = (z ^ (z >> 27)) * 0x94d049bb133111eb
	return z ^ (z >> 31)
}

func mix(z uint64) uint64 { return fin(z + 0x9e3779b97f4a7c15) }

type prng struct{ s uint64 }

func (p *prng) next() uint64 { p.s += 0x9e3779b97f4a7c15; return fin(p.s) }

func (r *run) evAdd(vs ...uint64) {
	h := r.ev
	for _, v := range vs {
		for i := 0; i < 8; i++ {
			h ^= v & 0xff
			h *= 0x100000001b3
			v >>= 8
		}
	}
	r.ev = h
}

func (r *run) finish(status string, code int) bool {
	r.mu.Lock()
	defer r.mu.Unlock()
	if r.exited {
		return false
	}
	r.exited = true
	r.status = status
	r.exit = code
	r.nextEvent = 0 // every later Tick in this run takes the slow path and unwinds
	close(r.doneCh)
	if r.sch.dead != nil {
		close(r.sch.dead) // goroutines parked for the baton unwind
	}
	return true
}

// Goexit unwinds the calling goroutine (runtime.Goexit, named here for race.go).
func Goexit() { runtime.Goexit() }

// Exit replaces os.Exit: the exit becomes an event, the calling goroutine unwinds.
func Exit(code int) {
	r := cur
	if r == nil {
		os.Exit(code)
	}
	r.finish("exit", code)
	runtime.Goexit()
}

// ---- virtual clock -------------------------------------------------------------

func (r *run) nowNs() int64 { return r.ticks * r.sc.NsTick }

func (r *run) addTimer(d time.Duration, f func()) *timer {
	t := &timer{ch: make(chan time.Time, 1), f: f}
	if r.sc.NsTick > 0 {
		t.at = r.ticks + int64(d)/r.sc.NsTick
		if int64(d) > 0 && t.at == r.ticks {
			t.at++
		}
	} else {
		t.at = 1 << 62
	}
	r.mu.Lock()
	r.timers = append(r.timers, t)
	r.nTimers++
	r.mu.Unlock()
	r.evAdd(0x7431, uint64(t.at))
	r.recompute()
	return t
}

// After replaces time.After.
func After(d time.Duration) <-chan time.Time {
	r := cur
	if r == nil {
		return time.After(d)
	}
	return r.addTimer(d, nil).ch
}

// Timer and Ticker replace time.Timer and time.Ticker (siminstr rewrites the type names too).
type Timer struct {
	C    <-chan time.Time
	r    *run
	tm   *timer
	real *time.Timer
}

func (r *run) dropTimer(tm *timer) bool {
	r.mu.Lock()
	defer r.mu.Unlock()
	for i, t := range r.timers {
		if t == tm {
			r.timers = append(r.timers[:i], r.timers[i+1:]...)
			return true
		}
	}
	return false
}

// Stop prevents the timer from firing; it reports whether the timer was still pending.
func (t *Timer) Stop() bool {
	if t.real != nil {
		return t.real.Stop()
	}
	ok := t.r.dropTimer(t.tm)
	t.r.recompute()
	return ok
}

// Reset re-arms the timer (same channel, same function).
func (t *Timer) Reset(d time.Duration) bool {
	if t.real != nil {
		return t.real.Reset(d)
	}
	was := t.r.dropTimer(t.tm)
	nt := t.r.addTimer(d, t.tm.f)
	nt.ch = t.tm.ch
	t.tm = nt
	return was
}

// NewTimer replaces time.NewTimer.
func NewTimer(d time.Duration) *Timer {
	r := cur
	if r == nil {
		rt := time.NewTimer(d)
		return &Timer{C: rt.C, real: rt}
	}
	tm := r.addTimer(d, nil)
	return &Timer{C: tm.ch, r: r, tm: tm}
}

// AfterFunc replaces time.AfterFunc.
func AfterFunc(d time.Duration, f func()) *Timer {
	r := cur
	if r == nil {
		return &Timer{real: time.AfterFunc(d, f)}
	}
	tm := r.addTimer(d, f)
	return &Timer{r: r, tm: tm}
}

type Ticker struct {
	C    <-chan time.Time
	r    *run
	tm   *timer
	real *time.Ticker
}

func (t *Ticker) Stop() {
	if t.real != nil {
		t.real.Stop()
		return
	}
	t.r.dropTimer(t.tm)
	t.tm.period = 0
	t.r.recompute()
}

func (t *Ticker) Reset(d time.Duration) {
	if t.real != nil {
		t.real.Reset(d)
		return
	}
	t.r.dropTimer(t.tm)
	nt := t.r.addTimer(d, nil)
	nt.ch, nt.period = t.tm.ch, nt.at-t.r.ticks
	t.tm = nt
}

// NewTicker replaces time.NewTicker; TickChan replaces time.Tick.
func NewTicker(d time.Duration) *Ticker {
	r := cur
	if r == nil {
		rt := time.NewTicker(d)
		return &Ticker{C: rt.C, real: rt}
	}
	tm := r.addTimer(d, nil)
	tm.period = tm.at - r.ticks
	return &Ticker{C: tm.ch, r: r, tm: tm}
}

func TickChan(d time.Duration) <-chan time.Time { return NewTicker(d).C }

// Sleep replaces time.Sleep: it advances virtual time instead of blocking.
func Sleep(d time.Duration) {
	r := cur
	if r == nil {
		time.Sleep(d)
		return
	}
	if r.sc.NsTick > 0 && d > 0 {
		n := int64(d) / r.sc.NsTick
		for i := int64(0); i < n && i < 1<<20; i++ {
			Tick()
		}
	}
}

var epoch = time.Date(2026, 1, 1, 0, 0, 0, 0, time.UTC)

// Now replaces time.Now.
func Now() time.Time {
	r := cur
	if r == nil {
		return time.Now()
	}
	// the wall clock a process starts at is the environment's choice: seeded schedules start
	// at different instants (and days), so output that depends on the time of day diverges
	var start time.Duration
	if r.sc.Sched != "canon" {
		start = time.Duration(mix(r.sc.Seed^0x74696d65)%uint64(400*24*time.Hour)) + time.Duration(r.sc.Seed%997)*time.Millisecond
	}
	// ... and run at different speeds (elapsed-time measurements differ between processes);
	// timers keep the nominal rate, only what Now/Since report is scaled
	elapsed := r.nowNs()
	if elapsed == 0 {
		elapsed = r.ticks * 40
	}
	if r.sc.Sched != "canon" {
		elapsed = elapsed / 1024 * int64(768+mix(r.sc.Seed^0x73706565)%512)
	}
	return epoch.Add(start + time.Duration(elapsed))
}

// Since replaces time.Since.
func Since(t time.Time) time.Duration { return Now().Sub(t) }

// simCtx is what context.WithTimeout / WithDeadline become: the deadline is a virtual timer.
type simCtx struct {
	parent   context.Context
	done     chan struct{}
	mu       sync.Mutex
	err      error
	deadline time.Time
}

func (c *simCtx) Deadline() (time.Time, bool) { return c.deadline, true }
func (c *simCtx) Done() <-chan struct{}       { return c.done }
func (c *simCtx) Value(k any) any             { return c.parent.Value(k) }
func (c *simCtx) Err() error {
	c.mu.Lock()
	defer c.mu.Unlock()
	return c.err
}
func (c *simCtx) finish(err error) {
	c.mu.Lock()
	if c.err == nil {
		c.err = err
		close(c.done)
	}
	c.mu.Unlock()
}

// WithTimeout replaces context.WithTimeout.
func WithTimeout(parent context.Context, d time.Duration) (context.Context, context.CancelFunc) {
	r := cur
	if r == nil {
		return context.WithTimeout(parent, d)
	}
	c := &simCtx{parent: parent, done: make(chan struct{}), deadline: Now().Add(d)}
	tm := r.addTimer(d, func() { c.finish(context.DeadlineExceeded) })
	if pd := parent.Done(); pd != nil {
		go func() { // not a goroutine of the simulated program: it only relays the parent's end
			select {
			case <-pd:
				c.finish(parent.Err())
			case <-c.done:
			}
		}()
	}
	return c, func() {
		c.finish(context.Canceled)
		r.mu.Lock()
		keep := r.timers[:0]
		for _, t := range r.timers {
			if t != tm {
				keep = append(keep, t)
			}
		}
		r.timers = keep
		r.mu.Unlock()
	}
}

// WithDeadline replaces context.WithDeadline.
func WithDeadline(parent context.Context, t time.Time) (context.Context, context.CancelFunc) {
	if cur == nil {
		return context.WithDeadline(parent, t)
	}
	return WithTimeout(parent, t.Sub(Now()))
}

// Getpid / Getppid replace os.Getpid / os.Getppid: a process id is the environment's choice
// (a warm worker would otherwise report the same one for every simulated process).
func Getpid() int {
	r := cur
	if r == nil {
		return os.Getpid()
	}
	if r.sc.Sched == "canon" {
		return 4242
	}
	return 300 + int(mix(r.sc.Seed^0x706964)%4_000_000)
}

func Getppid() int { return Getpid()/2 + 1 }

// CryptoRead replaces crypto/rand.Read (and, through it, Text and Int): fresh entropy in
// every real process, the run's PRNG here, so that a run that prints it replays exactly.
func CryptoRead(b []byte) (int, error) {
	r := cur
	if r == nil {
		for i := range b {
			b[i] = byte(i)
		}
		return len(b), nil
	}
	r.smu.Lock()
	defer r.smu.Unlock()
	seed := uint64(1)
	if r.sc.Sched != "canon" {
		seed = r.sc.Seed
	}
	r.crypto++
	p := prng{s: mix(seed ^ 0x63727970 ^ r.crypto<<32)}
	for i := range b {
		b[i] = byte(p.next() >> 24)
	}
	return len(b), nil
}

const cryptoAlphabet = "ABCDEFGHIJKLMNOPQRSTUVWXYZ234567"

// CryptoText replaces crypto/rand.Text.
func CryptoText() string {
	var b [26]byte
	CryptoRead(b[:])
	for i := range b {
		b[i] = cryptoAlphabet[int(b[i])%len(cryptoAlphabet)]
	}
	return string(b[:])
}

func (r *run) recompute() {
	r.mu.Lock()
	defer r.mu.Unlock()
	if r.exited {
		r.nextEvent = 0
		return
	}
	v := r.budget
	for _, t := range r.timers {
		if t.at < v {
			v = t.at
		}
	}
	if g := r.guard; g != nil && g.limit < v {
		v = g.limit
	}
	// v is the verdict tick; stack samples are taken shortly before it
	n := v
	if s0 := v - nSamples; s0 > r.ticks {
		n = s0
	} else if r.ticks+1 < v {
		n = r.ticks + 1
	}
	if v-nSamples != r.sampleFrom {
		r.samples = nil
	}
	r.sampleFrom = v - nSamples
	if r.nextDep > r.ticks && r.nextDep < n {
		n = r.nextDep
	}
	if g := r.guard; g != nil && g.limit < n {
		n = g.limit
	}
	if y := r.sch.nextYield; y > r.ticks && y < n {
		n = y
	}
	r.nextEvent = n
}

// guard is a tick sub-budget for one piece of work inside a run (used by lexsim: one
// guarded section per injected EOF position, so that a loop at one position does not
// end the enumeration of the others).
type guard struct {
	limit   int64
	tripped bool
	hangAt  string
}

// Guard runs f in its own goroutine under a budget of ticks. It returns false and the
// loop's home function if the budget was exhausted (f's goroutine is unwound).
func Guard(budget int64, f func()) (ok bool, hangAt string) {
	r := cur
	if r == nil {
		f()
		return true, ""
	}
	g := &guard{limit: r.ticks + budget}
	r.guard = g
	r.recompute()
	done := make(chan struct{})
	r.wg.Add(1)
	go func() {
		defer r.wg.Done()
		defer close(done)
		defer func() {
			if x := recover(); x != nil {
				r.recordPanic(x)
			}
		}()
		f()
	}()
	<-done
	r.guard = nil
	r.recompute()
	if r.exited {
		runtime.Goexit()
	}
	return !g.tripped, g.hangAt
}

func tiFrames(skip int, max int) []string {
	pcs := make([]uintptr, max)
	n := runtime.Callers(skip, pcs)
	fr := runtime.CallersFrames(pcs[:n])
	var out []string
	for {
		f, more := fr.Next()
		fn := f.Function
		if (strings.HasPrefix(fn, "ti/") || strings.HasPrefix(fn, "main.") || strings.HasPrefix(fn, "ti.")) && !strings.HasPrefix(fn, "ti/simrt.") {
			out = append(out, cleanFn(fn))
		}
		if !more {
			break
		}
	}
	return out // innermost first
}

var reSimName = regexp.MustCompile(`simInitFn\d+|simInitVar\d+`)

func cleanFn(fn string) string {
	fn = strings.TrimPrefix(fn, "ti/")
	fn = strings.Replace(fn, "main.simMain", "main.main", 1)
	fn = reSimName.ReplaceAllString(fn, "init")
	return fn
}

// hangSignature names the loop's (or recursion's) home function.
func (r *run) hangSignature() string {
	last := tiFrames(0, 96) // innermost first
	if len(last) == 0 {
		return "?"
	}
	if len(last) >= 90 {
		// runaway recursion: the function that fills the stack
		cnt := map[string]int{}
		best := last[0]
		for _, f := range last {
			cnt[f]++
		}
		for _, f := range last {
			if cnt[f] > cnt[best] {
				best = f
			}
		}
		return best
	}
	// longest common prefix, outermost first, over all samples: its last element is the
	// frame that stayed on the stack the whole time, i.e. where the loop lives
	rev := func(a []string) []string {
		b := make([]string, len(a))
		for i := range a {
			b[len(a)-1-i] = a[i]
		}
		return b
	}
	pre := rev(last)
	for _, s := range r.samples {
		t := rev(s)
		k := 0
		for k < len(pre) && k < len(t) && pre[k] == t[k] {
			k++
		}
		pre = pre[:k]
	}
	if len(pre) == 0 {
		return last[len(last)-1]
	}
	return pre[len(pre)-1]
}

// Tick is inserted at every function entry and loop head: CPU work is virtual time.
func Tick() {
	r := cur
	if r == nil {
		return
	}
	r.ticks++
	if r.ticks >= r.nextEvent {
		r.slow()
	}
}

func (r *run) slow() {
	if r.exited {
		// a goroutine of an already finished run: unwind it, nothing it does counts
		runtime.Goexit()
	}
	t := r.ticks
	if t >= r.sampleFrom && r.sampleFrom > 0 && len(r.samples) < nSamples {
		r.samples = append(r.samples, tiFrames(0, 96))
	}
	if t >= r.nextDep {
		r.nextDep = t + depthEvery
		if r.pcs == nil {
			r.pcs = make([]uintptr, r.maxDepth)
		}
		if n := runtime.Callers(0, r.pcs); n >= r.maxDepth {
			r.hangAt = r.hangSignature()
			if r.finish("recursion", -3) {
				runtime.Goexit()
			}
		}
	}
	if g := r.guard; g != nil && t >= g.limit && !g.tripped {
		g.tripped = true
		g.hangAt = r.hangSignature()
		r.samples = nil
		runtime.Goexit()
	}
	// timers due?
	var due []*timer
	r.mu.Lock()
	keep := r.timers[:0]
	for _, tm := range r.timers {
		if tm.at <= t {
			due = append(due, tm)
		} else {
			keep = append(keep, tm)
		}
	}
	r.timers = keep
	r.mu.Unlock()
	if len(due) > 0 {
		// virtual time reached a deadline while this goroutine was still computing:
		// the timer wins, deterministically. The computing goroutine stops here, as a
		// goroutine that never gets the CPU again before the process exits.
		r.hangAt = r.hangSignature()
		r.nFired += len(due)
		r.evAdd(0x7432, uint64(t))
		r.mu.Lock()
		r.timedOut = true
		r.mu.Unlock()
		for _, tm := range due {
			if tm.f != nil {
				Go(tm.f)
			} else {
				select {
				case tm.ch <- time.Time{}:
				default: // a ticker nobody has read from since its last tick
				}
			}
			if tm.period > 0 && r.sc.NsTick > 0 {
				tm.at = t + tm.period
				r.mu.Lock()
				r.timers = append(r.timers, tm)
				r.mu.Unlock()
			}
		}
		// The computing goroutine is preempted here: whoever waits for the timer becomes
		// runnable and the scheduler decides who goes on. In ruby-ti that is main's select,
		// which prints `timeout` and exits the process; a timer that is not a watchdog just
		// wakes its waiter and the computation continues.
		r.yield()
		r.recompute()
		return
	}
	if t >= r.budget {
		r.hangAt = r.hangSignature()
		if r.finish("budget", -2) {
			runtime.Goexit()
		}
	}
	if t >= r.sch.nextYield && r.guard == nil {
		r.yield() // simulated preemption at a seeded quantum boundary
	}
	r.recompute()
}

// awaitEnd waits for the simulated process to end. While it waits it watches for global
// quiescence: no goroutine holds or wants the baton and virtual time stands still, i.e. every
// simulated goroutine is blocked on something only another simulated goroutine could provide.
// That is a deadlock of the simulated program. What a real process does then depends on its
// timers: if one is pending (ti's watchdog) the process sleeps until it fires, so the
// simulator jumps the virtual clock to the earliest timer (discrete-event step) and fires it;
// without a pending timer the Go runtime would end the process with "all goroutines are
// asleep - deadlock!" (status deadlock, exit 2). Real time is used only to detect the
// standstill, never to decide an outcome.
func (r *run) awaitEnd() {
	const step = 10 * time.Millisecond
	idle, lastTicks, lastPicks := 0, int64(-1), uint64(0)
	t0 := time.Now()
	lastProgress := t0
	for {
		select {
		case <-r.doneCh:
			return
		case <-time.After(step):
		}
		r.smu.Lock()
		quiet := r.sch.holder == nil && len(r.sch.ready) == 0 && !r.sch.arbitrating
		picks := r.sch.picks
		r.smu.Unlock()
		t := r.ticks
		if quiet && t == lastTicks && picks == lastPicks {
			idle++
		} else {
			idle = 0
		}
		if t != lastTicks || picks != lastPicks {
			lastProgress = time.Now()
		}
		lastTicks, lastPicks = t, picks
		if idle >= 30 {
			idle = 0
			r.mu.Lock()
			var first *timer
			for _, tm := range r.timers {
				if tm.at < 1<<61 && (first == nil || tm.at < first.at) {
					first = tm // (timers of a node without a virtual clock never fire)
				}
			}
			if first != nil {
				keep := r.timers[:0]
				for _, tm := range r.timers {
					if tm != first {
						keep = append(keep, tm)
					}
				}
				r.timers = keep
				r.timedOut = true
			}
			r.mu.Unlock()
			r.hangAt = "deadlock(all goroutines blocked)"
			if first == nil {
				r.finish("deadlock", 2)
				return
			}
			if first.at > r.ticks {
				r.ticks = first.at
			}
			r.nFired++
			r.evAdd(0x7433, uint64(r.ticks))
			if first.f != nil {
				Go(first.f)
				r.kick()
			} else {
				first.ch <- time.Time{}
			}
		}
		// failsafe only: no tick and no scheduling decision for two minutes of real time although
		// somebody holds or wants the baton (a slow, allocating loop on a loaded machine still
		// ticks), or half an hour in total
		if time.Since(lastProgress) > 120*time.Second || time.Since(t0) > 30*time.Minute {
			r.finish("stuck", -4)
			return
		}
	}
}

// ---- goroutines and panics -------------------------------------------------------

var reNum = regexp.MustCompile(`\[[-0-9:]+\]|\b[0-9]+\b|0x[0-9a-f]+`)

func classifyPanic(x any) string {
	var s string
	switch v := x.(type) {
	case runtime.Error:
		s = v.Error()
	case error:
		s = "error: " + v.Error()
	default:
		s = fmt.Sprintf("%v", x)
	}
	s = reNum.ReplaceAllString(s, "N")
	if len(s) > 120 {
		s = s[:120]
	}
	return s
}

func (r *run) recordPanic(x any) {
	fr := tiFrames(4, 200)
	if len(fr) > 4 {
		fr = fr[:4]
	}
	raw := fmt.Sprintf("panic: %v\n%s", x, debug.Stack())
	r.mu.Lock()
	already := r.exited
	if !already {
		r.panicC = classifyPanic(x)
		r.panicAt = fr
		r.panicS = raw
	}
	r.mu.Unlock()
	if !already {
		r.finish("panic", 2)
	}
}

// Go replaces the go statement.
func Go(f func()) {
	r := cur
	if r == nil {
		go f()
		return
	}
	g := r.goStart() // a candidate for the baton from now on; runs when the scheduler says so
	r.wg.Add(1)
	go func() {
		defer r.wg.Done()
		defer r.goEnd(g)
		defer func() {
			if x := recover(); x != nil {
				r.recordPanic(x)
			}
		}()
		r.waitBaton(g)
		f()
	}()
}

// ---- map iteration order -----------------------------------------------------------

func (r *run) canonOf(k any) string {
	if s, ok := k.(string); ok {
		return s
	}
	if s, ok := r.canon[k]; ok {
		return s
	}
	s := fmt.Sprintf("%#v", k)
	r.canon[k] = s
	return s
}

func isRotation[K comparable](a, b []K) (int, bool) {
	n := len(a)
	if len(b) != n {
		return 0, false
	}
	off := -1
	for i := range b {
		if b[i] == a[0] {
			off = i
			break
		}
	}
	if off < 0 {
		return 0, false
	}
	for i := range a {
		if b[(off+i)%n] != a[i] {
			return 0, false
		}
	}
	return off, true
}

// Keys returns the keys of m in the order the simulator chose for this visit of site.
func Keys[M ~map[K]V, K comparable, V any](site int, m M) []K {
	n := len(m)
	if n == 0 {
		return nil
	}
	if r := cur; r != nil && atomic.LoadInt32(&r.raceOn) != 0 {
		r.mapAccess(mapID(m), false)
	}
	keys := make([]K, 0, n)
	for k := range m {
		keys = append(keys, k)
	}
	r := cur
	if r == nil || r.exited {
		return keys
	}
	st := r.sites[site]
	if st == nil {
		st = &SiteStat{Site: site}
		r.sites[site] = st
	}
	st.Visits++
	if n > st.MaxN {
		st.MaxN = n
	}
	if n < 2 {
		return keys
	}
	r.mapEvts++
	visit := r.visits[site]
	r.visits[site] = visit + 1
	sched := r.sc.Sched
	if len(r.only) > 0 && !r.only[site] {
		sched = "canon"
	}
	rng := prng{s: mix(r.sc.Seed ^ mix(uint64(site)<<32|uint64(uint32(visit))))}

	strs := make([]string, n)
	for i, k := range keys {
		strs[i] = r.canonOf(k)
	}
	if n <= 8 {
		keys2 := make([]K, 0, n)
		for k := range m {
			keys2 = append(keys2, k)
		}
		if _, ok := isRotation(keys, keys2); ok {
			// runtime-faithful small map: slot order is fixed, only the start is random
			st.Rot++
			min := 0
			for i := range strs {
				if strs[i] < strs[min] {
					min = i
				}
			}
			off := 0
			switch sched {
			case "rev":
				off = n - 1
			case "seeded":
				off = int(rng.next() % uint64(n))
			}
			out := make([]K, n)
			for i := range keys {
				out[i] = keys[(min+off+i)%n]
			}
			r.evAdd(0x6d01, uint64(site), uint64(n), uint64(off))
			st.Ord = fin(st.Ord*31 + uint64(off) + 1)
			return out
		}
	}
	st.Perm++
	idx := make([]int, n)
	for i := range idx {
		idx[i] = i
	}
	sort.Slice(idx, func(a, b int) bool { return strs[idx[a]] < strs[idx[b]] })
	switch sched {
	case "rev":
		for i, j := 0, n-1; i < j; i, j = i+1, j-1 {
			idx[i], idx[j] = idx[j], idx[i]
		}
		r.evAdd(0x6d02, uint64(site), uint64(n), 1)
		st.Ord = fin(st.Ord*31 + 0xfffe)
	case "seeded":
		var h uint64
		for i := n - 1; i > 0; i-- {
			j := int(rng.next() % uint64(i+1))
			idx[i], idx[j] = idx[j], idx[i]
			h = h*1099511628211 + uint64(j)
		}
		r.evAdd(0x6d02, uint64(site), uint64(n), 2, h)
		st.Ord = fin(st.Ord*31 + h + 0x10000)
	default:
		r.evAdd(0x6d02, uint64(site), uint64(n), 0)
	}
	out := make([]K, n)
	for i, j := range idx {
		out[i] = keys[j]
	}
	return out
}

// MapsKeys / MapsValues / MapsAll replace maps.Keys / maps.Values / maps.All.
func MapsKeys[M ~map[K]V, K comparable, V any](site int, m M) iter.Seq[K] {
	return func(yield func(K) bool) {
		for _, k := range Keys(site, m) {
			if _, ok := m[k]; ok && !yield(k) {
				return
			}
		}
	}
}

func MapsValues[M ~map[K]V, K comparable, V any](site int, m M) iter.Seq[V] {
	return func(yield func(V) bool) {
		for _, k := range Keys(site, m) {
			if v, ok := m[k]; ok && !yield(v) {
				return
			}
		}
	}
}

func MapsAll[M ~map[K]V, K comparable, V any](site int, m M) iter.Seq2[K, V] {
	return func(yield func(K, V) bool) {
		for _, k := range Keys(site, m) {
			if v, ok := m[k]; ok && !yield(k, v) {
				return
			}
		}
	}
}

// SetExtra lets an engine (lexsim) attach structured output to the current run.
func SetExtra(v any) {
	if r := cur; r != nil {
		r.extra = v
	}
}

// Payload returns the engine-specific input of the current run.
func Payload() []byte {
	if r := cur; r != nil {
		return r.sc.Payload
	}
	return nil
}

// Zero resets a package-level variable without an initialiser.
func Zero[T any](p *T) { var z T; *p = z }

// ---- warm worker ---------------------------------------------------------------------

// Serve runs scenarios read from stdin, one JSON object per line, forever.
func Serve(mainFn func(), reset func()) {
	debug.SetMaxStack(768 << 20)
	// One processor: the seeded scheduler's quiescence wait (sched.go) relies on it, and the
	// simulated node never runs two goroutines of ruby-ti code at once anyway.
	runtime.GOMAXPROCS(1)
	// Optional explicit collection every N runs (SIMRT_GC_EVERY); measured to make no
	// difference on this machine, so the automatic collector is the default.
	gcEvery := 0
	if v, err := strconv.Atoi(os.Getenv("SIMRT_GC_EVERY")); err == nil {
		gcEvery = v
	}
	if gcEvery > 0 {
		debug.SetGCPercent(-1)
		debug.SetMemoryLimit(3 << 30)
	}
	nRuns := 0
	in := bufio.NewReaderSize(os.Stdin, 1<<20)
	// the simulated process's standard input is empty (what a plugin or the golden tests give
	// the real binary): code that reads os.Stdin must not eat the worker's job stream
	if devnull, err := os.Open(os.DevNull); err == nil {
		os.Stdin = devnull
	}
	realOut, realErr := os.Stdout, os.Stderr
	outPath, errPath := os.Getenv("SIMRT_OUT"), os.Getenv("SIMRT_ERR")
	if outPath == "" || errPath == "" {
		fmt.Fprintln(realErr, "simrt: SIMRT_OUT / SIMRT_ERR not set")
		os.Exit(3)
	}
	baseEnv := os.Environ()
	w := bufio.NewWriter(realOut)
	enc := json.NewEncoder(w)
	for {
		line, err := in.ReadBytes('\n')
		if len(strings.TrimSpace(string(line))) > 0 {
			var sc Scenario
			if e := json.Unmarshal(line, &sc); e != nil {
				fmt.Fprintln(realErr, "simrt: bad scenario:", e)
				os.Exit(3)
			}
			res := runOne(sc, mainFn, reset, realOut, realErr, outPath, errPath, baseEnv)
			if e := enc.Encode(res); e != nil {
				fmt.Fprintln(realErr, "simrt: encode:", e)
				os.Exit(3)
			}
			w.Flush()
			if res.Retire {
				os.Exit(0)
			}
			nRuns++
			if gcEvery > 0 && nRuns%gcEvery == 0 {
				runtime.GC()
			}
		}
		if err != nil {
			return
		}
	}
}

func runOne(sc Scenario, mainFn func(), reset func(), realOut, realErr *os.File, outPath, errPath string, baseEnv []string) Result {
	if sc.Budget <= 0 {
		sc.Budget = defaultBudget
	}
	if sc.MaxDepth <= 0 {
		sc.MaxDepth = defaultMaxDepth
	}
	if err := os.Chdir(sc.Dir); err != nil {
		fmt.Fprintln(realErr, "simrt: chdir:", err)
		os.Exit(3)
	}
	os.Clearenv()
	for _, kv := range baseEnv {
		if i := strings.IndexByte(kv, '='); i > 0 {
			os.Setenv(kv[:i], kv[i+1:])
		}
	}
	for k, v := range sc.Env {
		os.Setenv(k, v)
	}
	os.Args = append([]string(nil), sc.Argv...)
	flag.CommandLine = flag.NewFlagSet(os.Args[0], flag.ExitOnError)
	fo, e1 := os.OpenFile(outPath, os.O_RDWR|os.O_CREATE|os.O_TRUNC, 0600)
	fe, e2 := os.OpenFile(errPath, os.O_RDWR|os.O_CREATE|os.O_TRUNC, 0600)
	if e1 != nil || e2 != nil {
		fmt.Fprintln(realErr, "simrt: capture files:", e1, e2)
		os.Exit(3)
	}
	os.Stdout, os.Stderr = fo, fe

	r := &run{sc: sc, budget: sc.Budget, maxDepth: sc.MaxDepth, doneCh: make(chan struct{}),
		sites: map[int]*SiteStat{}, visits: map[int]int{}, canon: map[any]string{}, ev: 0xcbf29ce484222325,
		nextDep: depthEvery}
	if len(sc.Only) > 0 {
		r.only = map[int]bool{}
		for _, s := range sc.Only {
			r.only[s] = true
		}
	}
	mainG := r.schedInit() // the simulated process's main goroutine holds the baton first
	r.recompute()
	cur = r
	g0 := make(chan struct{})
	go func() {
		defer close(g0)
		defer r.goEnd(mainG)
		defer func() {
			if x := recover(); x != nil {
				r.recordPanic(x)
			}
		}()
		reset()
		mainFn()
		r.finish("exit", 0) // main returned
	}()
	dbgT0 := time.Now()
	r.awaitEnd()
	if os.Getenv("SIMRT_DEBUG") != "" {
		fmt.Fprintf(realErr, "awaitEnd took %v status=%s ticks=%d\n", time.Since(dbgT0), r.status, r.ticks)
	}
	retire := false

	// The simulated process is gone. Whatever its goroutines still do is discarded.
	devnull, _ := os.OpenFile(os.DevNull, os.O_WRONLY, 0)
	os.Stdout, os.Stderr = devnull, devnull
	r.mu.Lock()
	for _, tm := range r.timers {
		select {
		case tm.ch <- time.Time{}:
		default:
		}
	}
	r.timers = nil
	r.mu.Unlock()
	// Wait until no goroutine of the ended process can run instrumented code any more: each
	// has finished, or sits in a real blocking operation between BeginBlock and EndBlock —
	// from where it can only come back through EndBlock, which unwinds it (it knows its own
	// run). Goroutines parked for the baton were released by finish.
	all := make(chan struct{})
	go func() { <-g0; r.wg.Wait(); close(all) }()
	deadline := time.Now().Add(3 * time.Second)
wait:
	for {
		select {
		case <-all:
			break wait
		case <-time.After(time.Millisecond):
		}
		r.smu.Lock()
		quiet := r.sch.alive <= r.sch.inBlock
		if os.Getenv("SIMRT_DEBUG") != "" {
			fmt.Fprintf(realErr, "postwait alive=%d inBlock=%d holder=%v ready=%d\n", r.sch.alive, r.sch.inBlock, r.sch.holder != nil, len(r.sch.ready))
		}
		r.smu.Unlock()
		if quiet {
			break
		}
		if time.Now().After(deadline) { // real time, infrastructure only: a goroutine blocked off the books
			retire = true
			break
		}
	}
	os.Stdout, os.Stderr = realOut, realErr
	devnull.Close()
	cur = nil

	fo.Seek(0, 0)
	fe.Seek(0, 0)
	ob, _ := io.ReadAll(io.LimitReader(fo, 4<<20))
	eb, _ := io.ReadAll(io.LimitReader(fe, 1<<20))
	fo.Close()
	fe.Close()

	res := Result{ID: sc.ID, Status: r.status, Exit: r.exit, Stdout: ob, Stderr: eb, Ticks: r.ticks,
		Panic: r.panicC, PanicAt: r.panicAt, PanicS: r.panicS, HangAt: r.hangAt,
		MapEvts: r.mapEvts, Timers: r.nTimers, Fired: r.nFired, Extra: r.extra, Retire: retire,
		SchedEvts: r.sch.decisions, Goroutines: r.sch.nextGID}
	if r.timedOut && r.status == "exit" {
		res.Status = "timeout"
	}
	if res.Status == "exit" || res.Status == "panic" {
		res.HangAt = ""
	}
	r.evAdd(0x6f01, uint64(len(ob)), uint64(int64(r.exit)))
	for _, b := range ob {
		r.ev ^= uint64(b)
		r.ev *= 0x100000001b3
	}
	res.EvHash = fmt.Sprintf("%016x", r.ev)
	ids := make([]int, 0, len(r.sites))
	for id := range r.sites {
		ids = append(ids, id)
	}
	sort.Ints(ids)
	for _, id := range ids {
		res.Sites = append(res.Sites, *r.sites[id])
	}
	return res
}
