//go:build verif

// lexsim: the lex-stream engine (property C03). siminstr copies this file verbatim into the
// instrumented scratch copy as cmd/zz_lexsim/main.go; it uses only the public API of
// ruby-ti's reader, lexer and parser packages, which are instrumented like everything else.
//
// Input (Scenario.Payload): {"text": <bytes>, "cuts": "all"|"none"}.
// For the text itself and — with cuts=all — for every prefix ending at a rune boundary
// (EOF injected at every rune position), three passes run under a linear tick guard:
//
//	1. Advance() until it reports end-of-stream: at most 2*runes+4 calls.
//	2. the same text followed by "\n<sentinel>\n": the sentinel must come out as a token
//	   (or inside the last string literal) — otherwise input was never consumed.
//	3. Parser.Read() until end: never an error ("read error"), bounded count.
package main

import (
	"bufio"
	"bytes"
	"encoding/json"
	"fmt"
	"strings"
	"unicode/utf8"

	"ti/lexer"
	"ti/lexer/reader"
	"ti/parser"
	"ti/simrt"
)

type payload struct {
	Text []byte `json:"text"`
	Cuts string `json:"cuts"`
}

type finding struct {
	Cut    int    `json:"cut"` // byte length of the prefix
	Kind   string `json:"kind"`
	Detail string `json:"detail"`
}

type report struct {
	Prefixes  int       `json:"prefixes"`
	Tokens    int       `json:"tokens"`
	MaxCalls  int       `json:"max_calls"`
	Findings  []finding `json:"findings"`
	NFindings int       `json:"n_findings"`
	Current   int       `json:"current_cut"`
}

const sentinel = "zzsentinelzz"

func newLexer(text []byte) lexer.Lexer {
	br := bufio.NewReader(bytes.NewReader(text))
	return lexer.New(reader.New(*br))
}

func valueString(v any) string {
	switch x := v.(type) {
	case string:
		return x
	case fmt.Stringer:
		return x.String()
	case interface{ GetName() string }:
		return x.GetName()
	}
	return fmt.Sprint(v)
}

// tokenString renders the current token: its kind and, for value-carrying kinds, its value
// (punctuation tokens leave a stale value behind).
func tokenString(l *lexer.Lexer) string {
	t := l.Token()
	if t < 256 {
		return fmt.Sprintf("%q", t)
	}
	return fmt.Sprintf("%d:%s", t, valueString(l.Value()))
}

// eofDivergence compares the tokens of p at end of input (a) with the tokens of
// p + "\n" + sentinel (b). a must be a prefix of b — its last token may be extended in b
// by an unterminated literal swallowing the following line — and b must continue with the
// separating newline token or the sentinel.
func eofDivergence(a, b []string) string {
	for i := range a {
		if i >= len(b) {
			return fmt.Sprintf("token %d %s exists only at end of input", i, a[i])
		}
		if a[i] == b[i] {
			continue
		}
		if i == len(a)-1 && strings.HasPrefix(b[i], a[i]) {
			return "" // unterminated literal: the rest of the text belongs to it
		}
		return fmt.Sprintf("token %d is %s at end of input but %s when a line follows", i, a[i], b[i])
	}
	if len(b) > len(a) {
		next := b[len(a)]
		if next != fmt.Sprintf("%q", '\n') && !strings.Contains(next, sentinel) {
			return fmt.Sprintf("token %s is produced only when a line follows: lost at end of input", next)
		}
	}
	return ""
}

func checkPrefix(rep *report, p []byte) {
	runes := utf8.RuneCount(p)
	add := func(kind, detail string) {
		rep.NFindings++
		if len(rep.Findings) < 40 {
			rep.Findings = append(rep.Findings, finding{len(p), kind, detail})
		}
	}
	budget := int64(6000 + 400*runes)
	bound := 2*runes + 4

	// pass 1: termination, linear token count
	calls := 0
	over := false
	var atEOF []string // token stream of p when the input really ends here
	ok, at := simrt.Guard(budget, func() {
		l := newLexer(p)
		for l.Advance() {
			calls++
			atEOF = append(atEOF, tokenString(&l))
			if calls > bound {
				over = true
				return
			}
		}
	})
	rep.Tokens += calls
	if calls > rep.MaxCalls {
		rep.MaxCalls = calls
	}
	if !ok {
		add("hang", "lexing does not terminate: "+at)
		return
	}
	if over {
		add("too-many-tokens", fmt.Sprintf("more than 2*%d+4 tokens", runes))
		return
	}

	// pass 2: whole input consumed (black-box, by sentinel)
	found := false
	var withMore []string // token stream of the same text when more text follows
	ok, at = simrt.Guard(2*budget, func() {
		ext := append(append(append([]byte(nil), p...), '\n'), []byte(sentinel+"\n")...)
		l := newLexer(ext)
		n := 0
		for l.Advance() {
			n++
			withMore = append(withMore, tokenString(&l))
			if strings.Contains(valueString(l.Value()), sentinel) {
				found = true
				return
			}
			if n > bound+8 {
				return
			}
		}
	})
	if !ok {
		add("hang", "lexing with trailing text does not terminate: "+at)
	} else if !found {
		add("unconsumed", "end-of-stream was reported before the text that follows was reached")
	} else if d := eofDivergence(atEOF, withMore); d != "" {
		// the end of the input must not make runes disappear: what the lexer produces for p
		// at end of input must be what it produces for p when a new line follows
		add("eof-divergence", d)
	}

	// pass 3: the parser's token construction
	var rerr error
	reads := 0
	overP := false
	ok, at = simrt.Guard(3*budget, func() {
		ps := parser.New(newLexer(p), "f.rb")
		for {
			t, err := ps.Read()
			if err != nil {
				rerr = err
				return
			}
			if t == nil {
				return
			}
			reads++
			if reads > bound {
				overP = true
				return
			}
		}
	})
	switch {
	case !ok:
		add("hang", "Parser.Read does not terminate: "+at)
	case rerr != nil:
		add("read-error", rerr.Error())
	case overP:
		add("too-many-tokens", "Parser.Read produced more than 2*runes+4 tokens")
	}
}

func simMain() {
	var pl payload
	if err := json.Unmarshal(simrt.Payload(), &pl); err != nil {
		panic("lexsim: bad payload: " + err.Error())
	}
	rep := &report{}
	simrt.SetExtra(rep)
	if pl.Cuts == "all" {
		for k := 0; k < len(pl.Text); {
			rep.Current = k
			rep.Prefixes++
			checkPrefix(rep, pl.Text[:k])
			_, sz := utf8.DecodeRune(pl.Text[k:])
			k += sz
		}
	}
	rep.Current = len(pl.Text)
	rep.Prefixes++
	checkPrefix(rep, pl.Text)
}

func main() { simrt.Serve(simMain, simResetAll) }
