// simlab: a small concurrent program used only to self-test the seeded goroutine scheduler
// (./run selftest-determinism). ./run copies it into the scratch snapshot as
// cmd/zz_simlab, so siminstr instruments it exactly like ruby-ti's own code; it contains
// the shapes of concurrency a change to ruby-ti could plausibly introduce.
package main

import (
	"context"
	crand "crypto/rand"
	"fmt"
	"math/rand/v2"
	"os"
	"sync"
	"time"
)

func work(n int) int {
	x := 0
	for i := 0; i < n; i++ {
		x += i % 7
	}
	return x
}

// fanout: workers append to a shared slice under a mutex; main waits on a WaitGroup.
func fanout(n int) {
	var mu sync.Mutex
	var wg sync.WaitGroup
	var order []int
	for i := 0; i < n; i++ {
		wg.Add(1)
		go func(i int) {
			defer wg.Done()
			work(50 * (n - i))
			mu.Lock()
			order = append(order, i)
			mu.Unlock()
		}(i)
	}
	wg.Wait()
	fmt.Println("fanout", order)
}

// collect: the pattern "decode concurrently, register in arrival order".
func collect(n int) {
	out := make(chan int, n)
	var wg sync.WaitGroup
	for i := 0; i < n; i++ {
		wg.Add(1)
		go func(i int) {
			defer wg.Done()
			work(30 * (i + 1))
			out <- i
		}(i)
	}
	go func() {
		wg.Wait()
		close(out)
	}()
	var order []int
	for v := range out {
		order = append(order, v)
	}
	fmt.Println("collect", order)
}

// rendezvous: unbuffered channel, main receives; selection between two producers.
func rendezvous(n int) {
	a, b := make(chan int), make(chan int)
	go func() {
		for i := 0; i < n; i++ {
			a <- i
		}
	}()
	go func() {
		for i := 0; i < n; i++ {
			b <- 100 + i
		}
	}()
	var order []int
	for k := 0; k < 2*n; k++ {
		select {
		case v := <-a:
			order = append(order, v)
		case v := <-b:
			order = append(order, v)
		}
	}
	fmt.Println("rendezvous", order)
}

// racy: unsynchronised read-modify-write with work in between: only simulated preemption
// (quantum boundaries) can interleave it.
func racy(n int) {
	var wg sync.WaitGroup
	shared := 0
	var trace []int
	for i := 0; i < n; i++ {
		wg.Add(1)
		go func(i int) {
			defer wg.Done()
			for k := 0; k < 4; k++ {
				v := shared
				work(4000)
				shared = v + 1
				trace = append(trace, i)
			}
		}(i)
	}
	wg.Wait()
	fmt.Println("racy", shared, trace)
}

// loadfiles: the shape "read and decode the files side by side, register each result as it
// arrives": the sent VALUE is computed by a call that does real I/O and a lot of work, many
// goroutines are alive at once, and the receiver sits in the header of an if statement.
func decode(path string, i int) [2]int {
	b, _ := os.ReadFile(path)
	return [2]int{i, len(b) + work(200*(i%5+1))%3}
}

func loadfiles(n int) {
	loaded := make(chan [2]int, n)
	for i := 0; i < n; i++ {
		go func() {
			loaded <- decode(os.Args[0], i)
		}()
	}
	var order []int
	for range n {
		if v := <-loaded; v[1] >= 0 {
			order = append(order, v[0])
		}
	}
	fmt.Println("loadfiles", order)
}

// once: several goroutines race for a sync.Once whose function has a scheduling point in it;
// a result channel is received from with the two-value form.
func once(n int) {
	var o sync.Once
	var wg sync.WaitGroup
	res := make(chan int, n)
	winner := -1
	for i := 0; i < n; i++ {
		wg.Add(1)
		go func(i int) {
			defer wg.Done()
			work(100 * (n - i))
			o.Do(func() {
				winner = i
				tmp := make(chan int, 1)
				tmp <- work(500)
				<-tmp
			})
			res <- i
		}(i)
	}
	wg.Wait()
	close(res)
	var order []int
	for {
		v, ok := <-res
		if !ok {
			break
		}
		order = append(order, v)
	}
	fmt.Println("once", winner, order)
}

// deadlock: the worker blocks for good (it locks a mutex twice). With a watchdog timer
// pending the process sleeps until the timer fires (ruby-ti's main.go has this shape);
// without one the Go runtime ends the process.
func deadlock(withTimer bool) {
	done := make(chan bool)
	go func() {
		var mu sync.Mutex
		work(300)
		mu.Lock()
		mu.Lock()
		done <- true
	}()
	if withTimer {
		select {
		case <-done:
			fmt.Println("deadlock done")
		case <-time.After(500 * time.Millisecond):
			fmt.Println("timeout") // what ruby-ti's main prints on this branch
			os.Exit(1)
		}
		return
	}
	<-done
	fmt.Println("deadlock done")
}

// env: things a process learns from its environment rather than from its input.
func env() {
	var b [4]byte
	crand.Read(b[:])
	fmt.Println("env", os.Getpid(), os.Getppid(), b, crand.Text()[:6], rand.IntN(1000), time.Now().Unix()%100000)
}

// timers: a watchdog built from context.WithTimeout, a stoppable time.NewTimer and a ticker
// that is not a watchdog at all (its ticks must not end the computation).
func timers(kind string) {
	done := make(chan int, 1)
	go func() { done <- work(200000) }()
	switch kind {
	case "context":
		ctx, cancel := context.WithTimeout(context.Background(), 500*time.Millisecond)
		defer cancel()
		select {
		case v := <-done:
			fmt.Println("timers context done", v, ctx.Err())
		case <-ctx.Done():
			fmt.Println("timers context deadline", ctx.Err())
		}
	case "newtimer":
		var t *time.Timer = time.NewTimer(500 * time.Millisecond)
		select {
		case v := <-done:
			fmt.Println("timers newtimer done", v, t.Stop())
		case <-t.C:
			fmt.Println("timers newtimer fired")
		}
	default:
		tk := time.NewTicker(200 * time.Microsecond)
		n := 0
		for {
			select {
			case v := <-done:
				tk.Stop()
				fmt.Println("timers ticker done", v, n > 0)
				return
			case <-tk.C:
				n++
			}
		}
	}
}

// maprace: a map shared by goroutines with no synchronisation between their accesses (the
// Go runtime ends such a process with "concurrent map writes" when the accesses really
// overlap). mapsafe: the same sharing ordered by a mutex (deferred unlock), a channel hand-over,
// a WaitGroup, a semaphore channel and a Once — nothing may be reported.
func maprace(kind string) {
	m := map[int]int{}
	done := make(chan bool)
	switch kind {
	case "writers":
		for g := 0; g < 2; g++ {
			go func() {
				for i := 0; i < 600; i++ {
					m[i%5] += work(300)
				}
				done <- true
			}()
		}
		<-done
		<-done
	default: // a budgeted helper that is abandoned when its time is up, as a watchdog copy would
		go func() {
			for i := 0; i < 4000; i++ {
				m[i%7] = work(40)
			}
			done <- true
		}()
		select {
		case <-done:
		case <-time.After(200 * time.Microsecond):
		}
		for i := 0; i < 50; i++ {
			m[i%7]++
			work(100)
		}
	}
	fmt.Println("maprace", kind, len(m))
}

func mapsafe() {
	m := map[int]int{}
	var mu sync.Mutex
	var wg sync.WaitGroup
	put := func(k, v int) {
		mu.Lock()
		defer mu.Unlock()
		m[k] += v
	}
	for g := 0; g < 3; g++ {
		wg.Add(1)
		go func() {
			defer wg.Done()
			for i := 0; i < 20; i++ {
				put(i%4, work(500))
			}
		}()
	}
	wg.Wait()
	total := len(m) // after Wait: ordered by Done -> Wait
	// hand-over through a channel
	own := map[string]int{}
	ch := make(chan map[string]int)
	go func() {
		own["a"] = work(2000)
		ch <- own
	}()
	got := <-ch
	got["b"] = 1
	// a channel used as a semaphore: the receive is what releases
	sem := make(chan struct{}, 1)
	shared := map[int]int{}
	var wg2 sync.WaitGroup
	for g := 0; g < 3; g++ {
		wg2.Add(1)
		go func() {
			defer wg2.Done()
			for i := 0; i < 10; i++ {
				sem <- struct{}{}
				shared[i] += work(700)
				<-sem
			}
		}()
	}
	wg2.Wait()
	// a Once that builds a table others read
	var once sync.Once
	table := map[int]int{}
	var wg3 sync.WaitGroup
	sum := 0
	var smu sync.Mutex
	for g := 0; g < 3; g++ {
		wg3.Add(1)
		go func() {
			defer wg3.Done()
			once.Do(func() {
				for i := 0; i < 30; i++ {
					table[i] = work(300)
				}
			})
			v := table[g]
			smu.Lock()
			sum += v
			smu.Unlock()
		}()
	}
	wg3.Wait()
	fmt.Println("mapsafe", total, len(got), len(shared), len(table), sum > 0)
}

func main() {
	mode := "all"
	if len(os.Args) > 1 {
		mode = os.Args[1]
	}
	switch mode {
	case "fanout":
		fanout(5)
	case "collect":
		collect(6)
	case "rendezvous":
		rendezvous(4)
	case "racy":
		racy(3)
	case "loadfiles":
		loadfiles(35)
	case "once":
		once(5)
	case "env":
		env()
	case "maprace-writers", "maprace-abandoned":
		maprace(mode[8:])
	case "mapsafe":
		mapsafe()
	case "timers-context", "timers-newtimer", "timers-ticker":
		timers(mode[7:])
	case "deadlock-timer":
		deadlock(true)
	case "deadlock-plain":
		deadlock(false)
	default:
		fanout(5)
		collect(6)
		rendezvous(4)
		racy(3)
		loadfiles(35)
		once(5)
	}
}
