// simlab: a small concurrent program used only to self-test the seeded goroutine scheduler
// (./run selftest-determinism). ./run copies it into the scratch snapshot as
// cmd/zz_simlab, so siminstr instruments it exactly like ruby-ti's own code; it contains
// the shapes of concurrency a change to ruby-ti could plausibly introduce.
package main

import (
	"fmt"
	"os"
	"sync"
)

func work(n int) int {
	x := 0
	for i := 0; i < n; i++ {
		x += i % 7
	}
	return x
}

// fanout: workers append to a shared slice under a mutex; main waits on a WaitGroup.
func fanout(n int) {
	var mu sync.Mutex
	var wg sync.WaitGroup
	var order []int
	for i := 0; i < n; i++ {
		wg.Add(1)
		go func(i int) {
			defer wg.Done()
			work(50 * (n - i))
			mu.Lock()
			order = append(order, i)
			mu.Unlock()
		}(i)
	}
	wg.Wait()
	fmt.Println("fanout", order)
}

// collect: the pattern "decode concurrently, register in arrival order".
func collect(n int) {
	out := make(chan int, n)
	var wg sync.WaitGroup
	for i := 0; i < n; i++ {
		wg.Add(1)
		go func(i int) {
			defer wg.Done()
			work(30 * (i + 1))
			out <- i
		}(i)
	}
	go func() {
		wg.Wait()
		close(out)
	}()
	var order []int
	for v := range out {
		order = append(order, v)
	}
	fmt.Println("collect", order)
}

// rendezvous: unbuffered channel, main receives; selection between two producers.
func rendezvous(n int) {
	a, b := make(chan int), make(chan int)
	go func() {
		for i := 0; i < n; i++ {
			a <- i
		}
	}()
	go func() {
		for i := 0; i < n; i++ {
			b <- 100 + i
		}
	}()
	var order []int
	for k := 0; k < 2*n; k++ {
		select {
		case v := <-a:
			order = append(order, v)
		case v := <-b:
			order = append(order, v)
		}
	}
	fmt.Println("rendezvous", order)
}

// racy: unsynchronised read-modify-write with work in between: only simulated preemption
// (quantum boundaries) can interleave it.
func racy(n int) {
	var wg sync.WaitGroup
	shared := 0
	var trace []int
	for i := 0; i < n; i++ {
		wg.Add(1)
		go func(i int) {
			defer wg.Done()
			for k := 0; k < 4; k++ {
				v := shared
				work(4000)
				shared = v + 1
				trace = append(trace, i)
			}
		}(i)
	}
	wg.Wait()
	fmt.Println("racy", shared, trace)
}

func main() {
	mode := "all"
	if len(os.Args) > 1 {
		mode = os.Args[1]
	}
	switch mode {
	case "fanout":
		fanout(5)
	case "collect":
		collect(6)
	case "rendezvous":
		rendezvous(4)
	case "racy":
		racy(3)
	default:
		fanout(5)
		collect(6)
		rendezvous(4)
		racy(3)
	}
}
