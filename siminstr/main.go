// siminstr: source-level seam injector.
//
//	siminstr <repo-snapshot> <out-dir> <simrt-src-dir> [<extra-main-dir> ...]
//
// It type-checks every non-test package of module "ti" under <repo-snapshot> with
// go/types and writes a rewritten copy to <out-dir> in which (rules R1..R7 of DESIGN.md)
//
//	R1 every range over a map (and maps.Keys/Values/All) asks simrt for the order,
//	R2 os.Exit        -> simrt.Exit,
//	R3 time.After/AfterFunc/Sleep/Now/Since -> simrt.*,
//	R4 go f(x)        -> simrt.Go(func(){ f(x) }),
//	R5 simrt.Tick() at every function entry and loop head,
//	R6 func main      -> simMain, new main = simrt.Serve(simMain, simResetAll),
//	R7 a generated SimReset() per package re-runs all package-level initialisers and
//	   init functions, so a warm worker reboots exactly like a fresh process.
//
// The rules are generic: nothing here names a ruby-ti identifier or position. Any failure
// (type error, print error) exits 2; the caller treats that as infrastructure trouble.
package main

import (
	"bytes"
	"encoding/json"
	"fmt"
	"go/ast"
	"go/format"
	"go/importer"
	"go/parser"
	"go/token"
	"go/types"
	"io"
	"os"
	"path/filepath"
	"reflect"
	"sort"
	"strconv"
	"strings"
)

const module = "ti"

type pkgInfo struct {
	path     string
	dir      string
	pkg      *types.Package
	info     *types.Info
	files    []*ast.File
	names    []string
	extraSrc [][]string
	isMain   bool
}

type loader struct {
	root  string
	fset  *token.FileSet
	std   types.Importer
	pkgs  map[string]*pkgInfo
	order []string // dependency order (post-order)
}

func die(args ...any) {
	fmt.Fprintln(os.Stderr, append([]any{"siminstr:"}, args...)...)
	os.Exit(2)
}

func (l *loader) dirOf(path string) string {
	return filepath.Join(l.root, strings.TrimPrefix(strings.TrimPrefix(path, module), "/"))
}

func (l *loader) Import(path string) (*types.Package, error) {
	if p, ok := l.pkgs[path]; ok {
		return p.pkg, nil
	}
	if path == module || strings.HasPrefix(path, module+"/") {
		p, err := l.check(path, l.dirOf(path))
		if err != nil {
			return nil, err
		}
		return p.pkg, nil
	}
	return l.std.Import(path)
}

func (l *loader) check(path, dir string) (*pkgInfo, error) {
	ents, err := os.ReadDir(dir)
	if err != nil {
		return nil, err
	}
	pi := &pkgInfo{path: path, dir: dir}
	for _, e := range ents {
		n := e.Name()
		if !strings.HasSuffix(n, ".go") || strings.HasSuffix(n, "_test.go") {
			continue
		}
		f, err := parser.ParseFile(l.fset, filepath.Join(dir, n), nil, parser.ParseComments)
		if err != nil {
			return nil, err
		}
		pi.files = append(pi.files, f)
		pi.names = append(pi.names, n)
	}
	if len(pi.files) == 0 {
		return nil, fmt.Errorf("no go files in %s", dir)
	}
	pi.info = &types.Info{
		Types: map[ast.Expr]types.TypeAndValue{},
		Uses:  map[*ast.Ident]types.Object{},
		Defs:  map[*ast.Ident]types.Object{},
	}
	conf := types.Config{Importer: l}
	pkg, err := conf.Check(path, l.fset, pi.files, pi.info)
	if err != nil {
		return nil, err
	}
	pi.pkg = pkg
	pi.isMain = pkg.Name() == "main"
	l.pkgs[path] = pi
	l.order = append(l.order, path)
	return pi, nil
}

type siteRec struct {
	ID   int    `json:"id"`
	Pos  string `json:"pos"`
	Func string `json:"func"`
	Type string `json:"type"`
	Kind string `json:"kind"`
}

var sites []siteRec

func isPkgSel(info *types.Info, e ast.Expr, pkg, name string) bool {
	sel, ok := e.(*ast.SelectorExpr)
	if !ok || sel.Sel.Name != name {
		return false
	}
	id, ok := sel.X.(*ast.Ident)
	if !ok {
		return false
	}
	pn, ok := info.Uses[id].(*types.PkgName)
	return ok && pn.Imported().Path() == pkg
}

// isPkgFunc reports a call target of the form <pkg>.<Func> for the given import path.
func isPkgFunc(info *types.Info, e ast.Expr, pkg string) bool {
	sel, ok := e.(*ast.SelectorExpr)
	if !ok {
		return false
	}
	id, ok := sel.X.(*ast.Ident)
	if !ok {
		return false
	}
	pn, ok := info.Uses[id].(*types.PkgName)
	if !ok || pn.Imported().Path() != pkg {
		return false
	}
	_, isFunc := info.Uses[sel.Sel].(*types.Func)
	return isFunc
}

func simSel(name string) ast.Expr {
	return &ast.SelectorExpr{X: ast.NewIdent("simrt"), Sel: ast.NewIdent(name)}
}

func tickStmt() ast.Stmt { return &ast.ExprStmt{X: &ast.CallExpr{Fun: simSel("Tick")}} }

func intLit(i int) ast.Expr { return &ast.BasicLit{Kind: token.INT, Value: strconv.Itoa(i)} }

func (l *loader) relPos(p token.Pos) string {
	pos := l.fset.Position(p)
	rel, err := filepath.Rel(l.root, pos.Filename)
	if err != nil {
		rel = pos.Filename
	}
	return fmt.Sprintf("%s:%d", rel, pos.Line)
}

// ---- R8a: channel receives become calls, so that only the receive itself happens off the
// baton. `<-ch` => simrt.Recv(ch), `v, ok := <-ch` => simrt.Recv2(ch). Operands and every
// other part of the enclosing statement are evaluated by the goroutine while it still holds
// the baton, in the order the language prescribes (a call in the same position). Receives
// that are the communication of a select case are left for the select rewrite.
var (
	exprIface = reflect.TypeOf((*ast.Expr)(nil)).Elem()
	nodeIface = reflect.TypeOf((*ast.Node)(nil)).Elem()
)

func replaceExprs(n ast.Node, f func(ast.Expr) ast.Expr) {
	seen := map[uintptr]bool{}
	var walk func(v reflect.Value)
	walk = func(v reflect.Value) {
		switch v.Kind() {
		case reflect.Interface:
			if v.IsNil() {
				return
			}
			if v.Type() == exprIface && v.CanSet() {
				if ne := f(v.Interface().(ast.Expr)); ne != nil {
					v.Set(reflect.ValueOf(ne))
				}
			}
			walk(v.Elem())
		case reflect.Ptr:
			if v.IsNil() {
				return
			}
			switch v.Interface().(type) {
			case *ast.Object, *ast.Scope:
				return
			}
			if seen[v.Pointer()] {
				return
			}
			seen[v.Pointer()] = true
			walk(v.Elem())
		case reflect.Struct:
			for i := 0; i < v.NumField(); i++ {
				walk(v.Field(i))
			}
		case reflect.Slice:
			for i := 0; i < v.Len(); i++ {
				walk(v.Index(i))
			}
		}
	}
	walk(reflect.ValueOf(n))
}

func isRecvExpr(e ast.Expr) (*ast.UnaryExpr, bool) {
	for {
		p, ok := e.(*ast.ParenExpr)
		if !ok {
			break
		}
		e = p.X
	}
	ue, ok := e.(*ast.UnaryExpr)
	return ue, ok && ue.Op == token.ARROW
}

func hoistReceives(f *ast.File) {
	skip := map[*ast.UnaryExpr]bool{}
	two := map[*ast.UnaryExpr]bool{}
	ast.Inspect(f, func(n ast.Node) bool {
		switch x := n.(type) {
		case *ast.CommClause:
			switch c := x.Comm.(type) {
			case *ast.ExprStmt:
				if ue, ok := isRecvExpr(c.X); ok {
					skip[ue] = true
				}
			case *ast.AssignStmt:
				if len(c.Rhs) == 1 {
					if ue, ok := isRecvExpr(c.Rhs[0]); ok {
						skip[ue] = true
					}
				}
			}
		case *ast.AssignStmt:
			if len(x.Lhs) == 2 && len(x.Rhs) == 1 {
				if ue, ok := isRecvExpr(x.Rhs[0]); ok {
					two[ue] = true
				}
			}
		case *ast.ValueSpec:
			if len(x.Names) == 2 && len(x.Values) == 1 {
				if ue, ok := isRecvExpr(x.Values[0]); ok {
					two[ue] = true
				}
			}
		}
		return true
	})
	replaceExprs(f, func(e ast.Expr) ast.Expr {
		ue, ok := e.(*ast.UnaryExpr)
		if !ok || ue.Op != token.ARROW || skip[ue] {
			return nil
		}
		name := "Recv"
		if two[ue] {
			name = "Recv2"
		}
		return &ast.CallExpr{Fun: simSel(name), Args: []ast.Expr{ue.X}}
	})
}

// ---- R9: map accesses and release operations (simrt/race.go) ---------------------------------
//
// m[k] as a value      => simrt.MapRead(m)[k]
// m[k] = v, m[k] op= v, m[k]++, delete(m, k), clear(m)  => ... simrt.MapWrite(m) ...
// calls into sync (Unlock, RUnlock, Done, Signal, Broadcast, ...), sync/atomic, context, and of
// values of type context.CancelFunc  => simrt.Rel(f)(args): Release, then the operation.
// (Lock, RLock and Wait only acquire; they are left alone. Channel operations, close and go
// statements are handled where they are rewritten anyway.)
func instrumentMapAccesses(f *ast.File, info *types.Info) {
	isMap := func(e ast.Expr) bool {
		tv, ok := info.Types[e]
		if !ok || tv.Type == nil {
			return false
		}
		_, is := tv.Type.Underlying().(*types.Map)
		return is
	}
	writes := map[*ast.IndexExpr]bool{}
	ast.Inspect(f, func(n ast.Node) bool {
		switch x := n.(type) {
		case *ast.AssignStmt:
			if x.Tok == token.DEFINE {
				return true
			}
			for _, l := range x.Lhs {
				if ie, ok := l.(*ast.IndexExpr); ok && isMap(ie.X) {
					writes[ie] = true
				}
			}
		case *ast.IncDecStmt:
			if ie, ok := x.X.(*ast.IndexExpr); ok && isMap(ie.X) {
				writes[ie] = true
			}
		case *ast.RangeStmt:
			// for m[k] = range ...: rare; treat the targets as writes
			for _, l := range []ast.Expr{x.Key, x.Value} {
				if ie, ok := l.(*ast.IndexExpr); ok && x.Tok == token.ASSIGN && isMap(ie.X) {
					writes[ie] = true
				}
			}
		}
		return true
	})
	wrap := func(name string, m ast.Expr) ast.Expr {
		return &ast.CallExpr{Fun: simSel(name), Args: []ast.Expr{m}}
	}
	releasePkgs := map[string]bool{"sync": true, "sync/atomic": true, "context": true, "golang.org/x/sync/errgroup": true, "golang.org/x/sync/semaphore": true}
	acquireOnly := map[string]bool{"Lock": true, "RLock": true, "Wait": true, "TryLock": true, "TryRLock": true, "Load": true,
		"Background": true, "TODO": true, "WithCancel": true, "WithTimeout": true, "WithDeadline": true, "WithValue": true, "Value": true, "Err": true, "Deadline": true,
		"Do": true, "Go": true, "NewCond": true, "OnceFunc": true, "OnceValue": true, "OnceValues": true, "AfterFunc": true, "Cause": true, "WithoutCancel": true}
	// isRelease: a call into sync / sync/atomic / context (other than the acquire-only and
	// constructor functions), or of a value of type context.CancelFunc
	isRelease := func(x *ast.CallExpr) bool {
		var fn *types.Func
		switch fx := x.Fun.(type) {
		case *ast.SelectorExpr:
			fn, _ = info.Uses[fx.Sel].(*types.Func)
		case *ast.Ident:
			fn, _ = info.Uses[fx].(*types.Func)
			if fn == nil {
				if tv, ok := info.Types[fx]; ok && tv.Type != nil && strings.HasSuffix(tv.Type.String(), "context.CancelFunc") {
					return true
				}
			}
		}
		if fn == nil || fn.Pkg() == nil || !releasePkgs[fn.Pkg().Path()] {
			return false
		}
		return !acquireOnly[fn.Name()]
	}
	// deferred release operations release when they RUN, not when they are deferred:
	//   defer mu.Unlock()  =>  defer func(f func()) { simrt.Release(); f() }(mu.Unlock)
	//   defer close(ch) / other forms  =>  defer func() { simrt.Release(); <call> }()
	deferred := map[*ast.CallExpr]bool{}
	defer func() {
		ast.Inspect(f, func(n ast.Node) bool {
			ds, ok := n.(*ast.DeferStmt)
			if !ok || deferred[ds.Call] {
				return true
			}
			call := ds.Call
			isClose := false
			if id, ok := call.Fun.(*ast.Ident); ok && id.Name == "close" {
				_, isClose = info.Uses[id].(*types.Builtin)
			}
			inner := call
			if !isClose && !isRelease(call) {
				return true
			}
			rel := &ast.ExprStmt{X: &ast.CallExpr{Fun: simSel("Release")}}
			var nc *ast.CallExpr
			if len(inner.Args) == 0 && !isClose {
				fparam := ast.NewIdent("simF")
				lit := &ast.FuncLit{
					Type: &ast.FuncType{Params: &ast.FieldList{List: []*ast.Field{{Names: []*ast.Ident{fparam}, Type: &ast.FuncType{Params: &ast.FieldList{}}}}}},
					Body: &ast.BlockStmt{List: []ast.Stmt{rel, &ast.ExprStmt{X: &ast.CallExpr{Fun: fparam}}}},
				}
				nc = &ast.CallExpr{Fun: lit, Args: []ast.Expr{inner.Fun}}
			} else {
				lit := &ast.FuncLit{Type: &ast.FuncType{Params: &ast.FieldList{}}, Body: &ast.BlockStmt{List: []ast.Stmt{rel, &ast.ExprStmt{X: inner}}}}
				nc = &ast.CallExpr{Fun: lit}
			}
			deferred[nc] = true
			ds.Call = nc
			return true
		})
	}()
	replaceExprs(f, func(e ast.Expr) ast.Expr {
		switch x := e.(type) {
		case *ast.IndexExpr:
			if !isMap(x.X) {
				return nil
			}
			if _, done := x.X.(*ast.CallExpr); done {
				if ce := x.X.(*ast.CallExpr); isSimSel(ce.Fun, "MapRead") || isSimSel(ce.Fun, "MapWrite") {
					return nil
				}
			}
			if writes[x] {
				x.X = wrap("MapWrite", x.X)
			} else {
				x.X = wrap("MapRead", x.X)
			}
			return nil
		case *ast.CallExpr:
			if id, ok := x.Fun.(*ast.Ident); ok && (id.Name == "delete" || id.Name == "clear") && len(x.Args) >= 1 {
				if _, isBuiltin := info.Uses[id].(*types.Builtin); isBuiltin && isMap(x.Args[0]) {
					x.Args[0] = wrap("MapWrite", x.Args[0])
				}
				return nil
			}
			// release operations (Once.Do and WaitGroup.Go are rewritten as a whole elsewhere)
			if isRelease(x) {
				x.Fun = &ast.CallExpr{Fun: simSel("Rel"), Args: []ast.Expr{x.Fun}}
			}
			return nil
		}
		return nil
	})
}

func isSimSel(e ast.Expr, name string) bool {
	sel, ok := e.(*ast.SelectorExpr)
	if !ok || sel.Sel.Name != name {
		return false
	}
	id, ok := sel.X.(*ast.Ident)
	return ok && id.Name == "simrt"
}

func rewriteFile(l *loader, pi *pkgInfo, f *ast.File) {
	info := pi.info
	curFunc := ""
	hoistReceives(f)
	// the type names time.Timer / time.Ticker follow their constructors into the simulator
	replaceExprs(f, func(e ast.Expr) ast.Expr {
		sel, ok := e.(*ast.SelectorExpr)
		if !ok || (sel.Sel.Name != "Timer" && sel.Sel.Name != "Ticker") {
			return nil
		}
		id, ok := sel.X.(*ast.Ident)
		if !ok {
			return nil
		}
		if pn, ok := info.Uses[id].(*types.PkgName); ok && pn.Imported().Path() == "time" {
			return simSel(sel.Sel.Name)
		}
		return nil
	})
	var rewriteStmts func(list []ast.Stmt) []ast.Stmt
	var visit func(n ast.Node)

	newSite := func(pos token.Pos, t types.Type, kind string) int {
		id := len(sites) + 1
		sites = append(sites, siteRec{ID: id, Pos: l.relPos(pos), Func: pi.pkg.Name() + "." + curFunc, Type: t.String(), Kind: kind})
		return id
	}

	rewriteRange := func(rs *ast.RangeStmt, label *ast.Ident) ast.Stmt {
		tv, ok := info.Types[rs.X]
		if !ok {
			return nil
		}
		if _, isMap := tv.Type.Underlying().(*types.Map); !isMap {
			return nil
		}
		id := newSite(rs.Pos(), tv.Type, "range")
		mv := ast.NewIdent(fmt.Sprintf("simM%d", id))
		kv := ast.NewIdent(fmt.Sprintf("simK%d", id))
		okv := ast.NewIdent(fmt.Sprintf("simOk%d", id))
		vv := ast.NewIdent(fmt.Sprintf("simV%d", id))
		var pre []ast.Stmt
		pre = append(pre, &ast.AssignStmt{
			Lhs: []ast.Expr{vv, okv}, Tok: token.DEFINE,
			Rhs: []ast.Expr{&ast.IndexExpr{X: mv, Index: kv}},
		})
		// Go never produces an entry that was deleted before being reached
		pre = append(pre, &ast.IfStmt{Cond: &ast.UnaryExpr{Op: token.NOT, X: okv}, Body: &ast.BlockStmt{List: []ast.Stmt{&ast.BranchStmt{Tok: token.CONTINUE}}}})
		pre = append(pre, &ast.AssignStmt{Lhs: []ast.Expr{ast.NewIdent("_")}, Tok: token.ASSIGN, Rhs: []ast.Expr{vv}})
		bind := func(lhs ast.Expr, rhs ast.Expr) {
			if lhs == nil {
				return
			}
			if id, ok := lhs.(*ast.Ident); ok && id.Name == "_" {
				return
			}
			pre = append(pre, &ast.AssignStmt{Lhs: []ast.Expr{lhs}, Tok: rs.Tok, Rhs: []ast.Expr{rhs}})
			if rs.Tok == token.DEFINE {
				pre = append(pre, &ast.AssignStmt{Lhs: []ast.Expr{ast.NewIdent("_")}, Tok: token.ASSIGN, Rhs: []ast.Expr{lhs}})
			}
		}
		bind(rs.Key, kv)
		bind(rs.Value, vv)
		body := &ast.BlockStmt{List: append(pre, rs.Body.List...)}
		loop := &ast.RangeStmt{
			Key: ast.NewIdent("_"), Value: kv, Tok: token.DEFINE,
			X:    &ast.CallExpr{Fun: simSel("Keys"), Args: []ast.Expr{intLit(id), mv}},
			Body: body,
		}
		var loopStmt ast.Stmt = loop
		if label != nil {
			loopStmt = &ast.LabeledStmt{Label: label, Stmt: loop}
		}
		return &ast.BlockStmt{List: []ast.Stmt{
			&ast.AssignStmt{Lhs: []ast.Expr{mv}, Tok: token.DEFINE, Rhs: []ast.Expr{rs.X}},
			loopStmt,
		}}
	}

	// --- R8: scheduling points around operations that may block -------------------------
	tokN := 0
	newTok := func() *ast.Ident { tokN++; return ast.NewIdent(fmt.Sprintf("simT%d_%d", len(sites), tokN)) }
	beginStmt := func(tok *ast.Ident) ast.Stmt {
		return &ast.AssignStmt{Lhs: []ast.Expr{tok}, Tok: token.DEFINE, Rhs: []ast.Expr{&ast.CallExpr{Fun: simSel("BeginBlock")}}}
	}
	endStmt := func(tok *ast.Ident) ast.Stmt {
		return &ast.ExprStmt{X: &ast.CallExpr{Fun: simSel("EndBlock"), Args: []ast.Expr{tok}}}
	}
	isChan := func(e ast.Expr) bool {
		tv, ok := info.Types[e]
		if !ok {
			return false
		}
		_, is := tv.Type.Underlying().(*types.Chan)
		return is
	}
	containsRecv := func(n ast.Node) bool {
		found := false
		ast.Inspect(n, func(m ast.Node) bool {
			switch x := m.(type) {
			case *ast.FuncLit:
				return false
			case *ast.UnaryExpr:
				if x.Op == token.ARROW {
					found = true
				}
			}
			return !found
		})
		return found
	}
	// syncCall reports a direct call of a blocking sync method (Wait, Lock, RLock) or of
	// (*sync.WaitGroup).Go in statement position.
	syncCall := func(s ast.Stmt) (name string, call *ast.CallExpr) {
		es, ok := s.(*ast.ExprStmt)
		if !ok {
			return "", nil
		}
		ce, ok := es.X.(*ast.CallExpr)
		if !ok {
			return "", nil
		}
		sel, ok := ce.Fun.(*ast.SelectorExpr)
		if !ok {
			return "", nil
		}
		fn, ok := info.Uses[sel.Sel].(*types.Func)
		if !ok || fn.Pkg() == nil || fn.Pkg().Path() != "sync" {
			return "", nil
		}
		switch fn.Name() {
		case "Wait", "Lock", "RLock", "Go":
			return fn.Name(), ce
		case "Do":
			if sig, ok := fn.Type().(*types.Signature); ok && sig.Recv() != nil && strings.HasSuffix(sig.Recv().Type().String(), "sync.Once") {
				return "OnceDo", ce
			}
		}
		return "", nil
	}
	// goCall builds simrt.Go(func(){ f(args) }) with f and args evaluated now, as `go` does.
	goCall := func(call *ast.CallExpr) ast.Stmt {
		var pre []ast.Stmt
		tmp := func(e ast.Expr) ast.Expr {
			if _, lit := e.(*ast.FuncLit); lit {
				return e
			}
			if _, lit := e.(*ast.BasicLit); lit {
				return e
			}
			id := newTok()
			pre = append(pre, &ast.AssignStmt{Lhs: []ast.Expr{id}, Tok: token.DEFINE, Rhs: []ast.Expr{e}})
			return id
		}
		nc := &ast.CallExpr{Fun: call.Fun, Ellipsis: call.Ellipsis}
		if _, isSel := call.Fun.(*ast.SelectorExpr); !isSel {
			if _, isId := call.Fun.(*ast.Ident); !isId {
				nc.Fun = tmp(call.Fun)
			}
		}
		for _, a := range call.Args {
			nc.Args = append(nc.Args, tmp(a))
		}
		spawn := &ast.ExprStmt{X: &ast.CallExpr{Fun: simSel("Go"), Args: []ast.Expr{
			&ast.FuncLit{Type: &ast.FuncType{Params: &ast.FieldList{}}, Body: &ast.BlockStmt{List: []ast.Stmt{&ast.ExprStmt{X: nc}}}},
		}}}
		if len(pre) == 0 {
			return spawn
		}
		return &ast.BlockStmt{List: append(pre, spawn)}
	}
	// chanRange turns `for v := range ch { body }` into an explicit receive loop.
	chanRange := func(rs *ast.RangeStmt, label *ast.Ident) ast.Stmt {
		tok := newTok()
		cv := newTok()
		okv := newTok()
		var lhs ast.Expr = ast.NewIdent("_")
		asg := token.DEFINE
		if rs.Key != nil {
			lhs = rs.Key
			if rs.Tok == token.ASSIGN {
				asg = token.ASSIGN
			}
		}
		var recv ast.Stmt
		if asg == token.ASSIGN {
			// v is an existing variable: receive into temporaries, then assign
			vv := newTok()
			recv = &ast.BlockStmt{List: []ast.Stmt{}}
			_ = vv
			recv = &ast.AssignStmt{Lhs: []ast.Expr{vv, okv}, Tok: token.DEFINE, Rhs: []ast.Expr{&ast.UnaryExpr{Op: token.ARROW, X: cv}}}
			body := append([]ast.Stmt{beginStmt(tok), recv, endStmt(tok),
				&ast.IfStmt{Cond: &ast.UnaryExpr{Op: token.NOT, X: okv}, Body: &ast.BlockStmt{List: []ast.Stmt{&ast.BranchStmt{Tok: token.BREAK}}}},
				&ast.AssignStmt{Lhs: []ast.Expr{lhs}, Tok: token.ASSIGN, Rhs: []ast.Expr{vv}}}, rs.Body.List...)
			loop := ast.Stmt(&ast.ForStmt{Body: &ast.BlockStmt{List: body}})
			if label != nil {
				loop = &ast.LabeledStmt{Label: label, Stmt: loop}
			}
			return &ast.BlockStmt{List: []ast.Stmt{&ast.AssignStmt{Lhs: []ast.Expr{cv}, Tok: token.DEFINE, Rhs: []ast.Expr{rs.X}}, loop}}
		}
		recv = &ast.AssignStmt{Lhs: []ast.Expr{lhs, okv}, Tok: token.DEFINE, Rhs: []ast.Expr{&ast.UnaryExpr{Op: token.ARROW, X: cv}}}
		body := []ast.Stmt{beginStmt(tok), recv, endStmt(tok),
			&ast.IfStmt{Cond: &ast.UnaryExpr{Op: token.NOT, X: okv}, Body: &ast.BlockStmt{List: []ast.Stmt{&ast.BranchStmt{Tok: token.BREAK}}}}}
		if id, ok := lhs.(*ast.Ident); ok && id.Name != "_" {
			body = append(body, &ast.AssignStmt{Lhs: []ast.Expr{ast.NewIdent("_")}, Tok: token.ASSIGN, Rhs: []ast.Expr{lhs}})
		}
		body = append(body, rs.Body.List...)
		loop := ast.Stmt(&ast.ForStmt{Body: &ast.BlockStmt{List: body}})
		if label != nil {
			loop = &ast.LabeledStmt{Label: label, Stmt: loop}
		}
		return &ast.BlockStmt{List: []ast.Stmt{&ast.AssignStmt{Lhs: []ast.Expr{cv}, Tok: token.DEFINE, Rhs: []ast.Expr{rs.X}}, loop}}
	}
	// selectRewrite takes Go's own random choice among ready cases away from the runtime:
	// the cases are first polled one by one, without blocking, in an order the simulator
	// draws (simrt.SelectOrder); only if none is ready does the goroutine block in the real
	// select, bracketed as a scheduling point — and then at most one case can become ready
	// at a time, because only the baton holder makes progress. Channel operands and sent
	// values are evaluated once, up front, as the language specifies.
	selectRewrite := func(st *ast.SelectStmt) []ast.Stmt {
		var pre []ast.Stmt
		idx := newTok()
		pre = append(pre, &ast.AssignStmt{Lhs: []ast.Expr{idx}, Tok: token.DEFINE, Rhs: []ast.Expr{&ast.UnaryExpr{Op: token.SUB, X: intLit(1)}}})
		pre = append(pre, &ast.ExprStmt{X: &ast.CallExpr{Fun: simSel("Release")}})
		type caseInfo struct {
			comm   func() ast.Stmt // fresh copy of the communication, using hoisted operands
			bind   []ast.Stmt      // statements that bind the received values in the body
			body   []ast.Stmt
			isDflt bool
		}
		var cases []caseInfo
		dflt := -1
		for i, cl := range st.Body.List {
			cc := cl.(*ast.CommClause)
			ci := caseInfo{body: cc.Body}
			switch c := cc.Comm.(type) {
			case nil:
				ci.isDflt = true
				dflt = i
			case *ast.SendStmt:
				ch, val := newTok(), newTok()
				pre = append(pre, &ast.AssignStmt{Lhs: []ast.Expr{ch}, Tok: token.DEFINE, Rhs: []ast.Expr{c.Chan}},
					&ast.AssignStmt{Lhs: []ast.Expr{val}, Tok: token.DEFINE, Rhs: []ast.Expr{c.Value}})
				ci.comm = func() ast.Stmt { return &ast.SendStmt{Chan: ch, Value: val} }
			case *ast.ExprStmt: // case <-ch:
				ue, ok := c.X.(*ast.UnaryExpr)
				if !ok || ue.Op != token.ARROW {
					die("unsupported select case at", l.relPos(c.Pos()))
				}
				ch := newTok()
				pre = append(pre, &ast.AssignStmt{Lhs: []ast.Expr{ch}, Tok: token.DEFINE, Rhs: []ast.Expr{ue.X}})
				ci.comm = func() ast.Stmt { return &ast.ExprStmt{X: &ast.UnaryExpr{Op: token.ARROW, X: ch}} }
			case *ast.AssignStmt: // case v := <-ch:  /  case v, ok = <-ch:
				ue, ok := c.Rhs[0].(*ast.UnaryExpr)
				if !ok || ue.Op != token.ARROW {
					die("unsupported select case at", l.relPos(c.Pos()))
				}
				ch, vv, okv := newTok(), newTok(), newTok()
				pre = append(pre, &ast.AssignStmt{Lhs: []ast.Expr{ch}, Tok: token.DEFINE, Rhs: []ast.Expr{ue.X}},
					&ast.AssignStmt{Lhs: []ast.Expr{vv}, Tok: token.DEFINE, Rhs: []ast.Expr{&ast.CallExpr{Fun: simSel("ZeroOf"), Args: []ast.Expr{ch}}}},
					&ast.AssignStmt{Lhs: []ast.Expr{okv}, Tok: token.DEFINE, Rhs: []ast.Expr{ast.NewIdent("false")}},
					&ast.AssignStmt{Lhs: []ast.Expr{ast.NewIdent("_"), ast.NewIdent("_")}, Tok: token.ASSIGN, Rhs: []ast.Expr{vv, okv}})
				ci.comm = func() ast.Stmt {
					return &ast.AssignStmt{Lhs: []ast.Expr{vv, okv}, Tok: token.ASSIGN, Rhs: []ast.Expr{&ast.UnaryExpr{Op: token.ARROW, X: ch}}}
				}
				rhs := []ast.Expr{vv}
				if len(c.Lhs) == 2 {
					rhs = append(rhs, okv)
				}
				ci.bind = []ast.Stmt{&ast.AssignStmt{Lhs: c.Lhs, Tok: c.Tok, Rhs: rhs}}
				if c.Tok == token.DEFINE {
					for _, lh := range c.Lhs {
						if id, ok := lh.(*ast.Ident); ok && id.Name != "_" {
							ci.bind = append(ci.bind, &ast.AssignStmt{Lhs: []ast.Expr{ast.NewIdent("_")}, Tok: token.ASSIGN, Rhs: []ast.Expr{id}})
						}
					}
				}
			default:
				die("unsupported select case at", l.relPos(cc.Pos()))
			}
			cases = append(cases, ci)
		}
		setIdx := func(i int) ast.Stmt {
			return &ast.AssignStmt{Lhs: []ast.Expr{idx}, Tok: token.ASSIGN, Rhs: []ast.Expr{intLit(i)}}
		}
		// polling phase
		kv := newTok()
		var pollCases []ast.Stmt
		nComm := 0
		for i, ci := range cases {
			if ci.isDflt {
				continue
			}
			nComm++
			poll := &ast.SelectStmt{Body: &ast.BlockStmt{List: []ast.Stmt{
				&ast.CommClause{Comm: ci.comm(), Body: []ast.Stmt{setIdx(i)}},
				&ast.CommClause{Comm: nil},
			}}}
			pollCases = append(pollCases, &ast.CaseClause{List: []ast.Expr{intLit(i)}, Body: []ast.Stmt{poll}})
		}
		order := &ast.CallExpr{Fun: simSel("SelectOrder"), Args: []ast.Expr{intLit(len(cases))}}
		pollLoop := &ast.RangeStmt{Key: ast.NewIdent("_"), Value: kv, Tok: token.DEFINE, X: order, Body: &ast.BlockStmt{List: []ast.Stmt{
			&ast.SwitchStmt{Tag: kv, Body: &ast.BlockStmt{List: pollCases}},
			&ast.IfStmt{Cond: &ast.BinaryExpr{X: idx, Op: token.GEQ, Y: intLit(0)}, Body: &ast.BlockStmt{List: []ast.Stmt{&ast.BranchStmt{Tok: token.BREAK}}}},
		}}}
		if nComm > 0 {
			pre = append(pre, pollLoop)
		}
		// nothing ready: default, or block for real
		var elseBody []ast.Stmt
		if dflt >= 0 {
			elseBody = []ast.Stmt{setIdx(dflt)}
		} else {
			tok := newTok()
			var blk []ast.Stmt
			for i, ci := range cases {
				blk = append(blk, &ast.CommClause{Comm: ci.comm(), Body: []ast.Stmt{setIdx(i)}})
			}
			elseBody = []ast.Stmt{beginStmt(tok), &ast.SelectStmt{Body: &ast.BlockStmt{List: blk}}, endStmt(tok)}
		}
		pre = append(pre, &ast.IfStmt{Cond: &ast.BinaryExpr{X: idx, Op: token.LSS, Y: intLit(0)}, Body: &ast.BlockStmt{List: elseBody}})
		// the chosen case's body
		var bodies []ast.Stmt
		for i, ci := range cases {
			bodies = append(bodies, &ast.CaseClause{List: []ast.Expr{intLit(i)}, Body: append(append([]ast.Stmt{}, ci.bind...), ci.body...)})
		}
		pre = append(pre, &ast.SwitchStmt{Tag: idx, Body: &ast.BlockStmt{List: bodies}})
		// one block, so that hoisted names do not leak (bodies keep their own scope in the switch)
		return []ast.Stmt{&ast.BlockStmt{List: pre}}
	}

	bracket := func(out []ast.Stmt, s ast.Stmt) []ast.Stmt {
		tok := newTok()
		return append(out, beginStmt(tok), s, endStmt(tok))
	}

	rewriteStmts = func(list []ast.Stmt) []ast.Stmt {
		var out []ast.Stmt
		for _, s := range list {
			switch st := s.(type) {
			case *ast.RangeStmt:
				visit(st.X)
				visit(st.Body)
				st.Body.List = append([]ast.Stmt{tickStmt()}, st.Body.List...)
				if isChan(st.X) {
					out = append(out, chanRange(st, nil))
				} else if r := rewriteRange(st, nil); r != nil {
					out = append(out, r)
				} else {
					out = append(out, st)
				}
			case *ast.LabeledStmt:
				if rs, ok := st.Stmt.(*ast.RangeStmt); ok {
					visit(rs.X)
					visit(rs.Body)
					rs.Body.List = append([]ast.Stmt{tickStmt()}, rs.Body.List...)
					if isChan(rs.X) {
						out = append(out, chanRange(rs, st.Label))
					} else if r := rewriteRange(rs, st.Label); r != nil {
						out = append(out, r)
					} else {
						out = append(out, st)
					}
				} else {
					visit(st)
					out = append(out, st)
				}
			case *ast.GoStmt:
				visit(st.Call)
				out = append(out, goCall(st.Call))
			case *ast.SendStmt:
				// channel and value are evaluated under the baton; only the send itself is the
				// scheduling point:  { c := ch; v := zero of c's element type; v = val; begin; c <- v; end }
				visit(st)
				cv, vv, tok := newTok(), newTok(), newTok()
				out = append(out, &ast.BlockStmt{List: []ast.Stmt{
					&ast.AssignStmt{Lhs: []ast.Expr{cv}, Tok: token.DEFINE, Rhs: []ast.Expr{st.Chan}},
					&ast.AssignStmt{Lhs: []ast.Expr{vv}, Tok: token.DEFINE, Rhs: []ast.Expr{&ast.CallExpr{Fun: simSel("ZeroOfSend"), Args: []ast.Expr{cv}}}},
					&ast.AssignStmt{Lhs: []ast.Expr{vv}, Tok: token.ASSIGN, Rhs: []ast.Expr{st.Value}},
					&ast.ExprStmt{X: &ast.CallExpr{Fun: simSel("Release")}},
					beginStmt(tok),
					&ast.SendStmt{Chan: cv, Value: vv},
					endStmt(tok),
				}})
			case *ast.SelectStmt:
				visit(st)
				out = append(out, selectRewrite(st)...)
			case *ast.ExprStmt, *ast.AssignStmt:
				visit(s)
				if es, ok := s.(*ast.ExprStmt); ok {
					if ce, ok := es.X.(*ast.CallExpr); ok {
						if id, ok := ce.Fun.(*ast.Ident); ok && id.Name == "close" {
							if _, isBuiltin := info.Uses[id].(*types.Builtin); isBuiltin {
								out = append(out, &ast.ExprStmt{X: &ast.CallExpr{Fun: simSel("Release")}})
							}
						}
					}
				}
				name, call := syncCall(s)
				switch {
				case name == "Go" && len(call.Args) == 1:
					// wg.Go(f)  =>  wg.Add(1); simrt.Go(func(){ defer wg.Done(); f() })
					wg := call.Fun.(*ast.SelectorExpr).X
					fv := newTok()
					out = append(out,
						&ast.AssignStmt{Lhs: []ast.Expr{fv}, Tok: token.DEFINE, Rhs: []ast.Expr{call.Args[0]}},
						&ast.ExprStmt{X: &ast.CallExpr{Fun: &ast.SelectorExpr{X: wg, Sel: ast.NewIdent("Add")}, Args: []ast.Expr{intLit(1)}}},
						&ast.ExprStmt{X: &ast.CallExpr{Fun: simSel("Go"), Args: []ast.Expr{&ast.FuncLit{Type: &ast.FuncType{Params: &ast.FieldList{}}, Body: &ast.BlockStmt{List: []ast.Stmt{
							&ast.DeferStmt{Call: &ast.CallExpr{Fun: &ast.SelectorExpr{X: wg, Sel: ast.NewIdent("Done")}}},
							&ast.ExprStmt{X: &ast.CallExpr{Fun: fv}},
						}}}}}})
				case name == "OnceDo" && len(call.Args) == 1:
					// once.Do(f) => simrt.OnceDo(once.Do, f): the winner runs f under the baton,
					// the others wait off the baton
					out = append(out, &ast.ExprStmt{X: &ast.CallExpr{Fun: simSel("OnceDo"), Args: []ast.Expr{call.Fun, call.Args[0]}}})
				case name != "" && name != "Go":
					out = bracket(out, s)
				case containsRecv(s):
					out = bracket(out, s)
				default:
					out = append(out, s)
				}
			default:
				visit(s)
				if _, isDecl := s.(*ast.DeclStmt); !isDecl && containsRecvShallow(s) {
					fmt.Fprintf(os.Stderr, "siminstr: note: receive inside a %T at %s is not bracketed by a scheduling point\n", s, l.relPos(s.Pos()))
				}
				out = append(out, s)
			}
		}
		return out
	}

	visit = func(n ast.Node) {
		if n == nil {
			return
		}
		ast.Inspect(n, func(nd ast.Node) bool {
			switch x := nd.(type) {
			case *ast.BlockStmt:
				x.List = rewriteStmts(x.List)
				return false
			case *ast.CaseClause:
				for _, e := range x.List {
					visit(e)
				}
				x.Body = rewriteStmts(x.Body)
				return false
			case *ast.CommClause:
				if x.Comm != nil {
					visit(x.Comm)
				}
				x.Body = rewriteStmts(x.Body)
				return false
			case *ast.ForStmt:
				if x.Init != nil {
					visit(x.Init)
				}
				if x.Cond != nil {
					visit(x.Cond)
				}
				if x.Post != nil {
					visit(x.Post)
				}
				visit(x.Body)
				x.Body.List = append([]ast.Stmt{tickStmt()}, x.Body.List...)
				return false
			case *ast.RangeStmt:
				// a range statement that is not directly in a statement list (e.g. the
				// body of a labelled non-range statement): still gets its tick; a map
				// range here cannot be replaced in place, so fail closed.
				if tv, ok := info.Types[x.X]; ok {
					if _, isMap := tv.Type.Underlying().(*types.Map); isMap {
						die("map range outside a statement list at", l.relPos(x.Pos()))
					}
				}
				visit(x.X)
				visit(x.Body)
				x.Body.List = append([]ast.Stmt{tickStmt()}, x.Body.List...)
				return false
			case *ast.FuncLit:
				visit(x.Body)
				x.Body.List = append([]ast.Stmt{tickStmt()}, x.Body.List...)
				return false
			case *ast.CallExpr:
				switch {
				case isPkgSel(info, x.Fun, "os", "Exit"):
					x.Fun = simSel("Exit")
				case isPkgSel(info, x.Fun, "time", "After"):
					x.Fun = simSel("After")
				case isPkgSel(info, x.Fun, "time", "AfterFunc"):
					x.Fun = simSel("AfterFunc")
				case isPkgSel(info, x.Fun, "time", "NewTimer"):
					x.Fun = simSel("NewTimer")
				case isPkgSel(info, x.Fun, "time", "NewTicker"):
					x.Fun = simSel("NewTicker")
				case isPkgSel(info, x.Fun, "time", "Tick"):
					x.Fun = simSel("TickChan")
				case isPkgSel(info, x.Fun, "time", "Sleep"):
					x.Fun = simSel("Sleep")
				case isPkgSel(info, x.Fun, "time", "Now"):
					x.Fun = simSel("Now")
				case isPkgSel(info, x.Fun, "time", "Since"):
					x.Fun = simSel("Since")
				case isPkgSel(info, x.Fun, "context", "WithTimeout"):
					x.Fun = simSel("WithTimeout")
				case isPkgSel(info, x.Fun, "context", "WithDeadline"):
					x.Fun = simSel("WithDeadline")
				case isPkgSel(info, x.Fun, "os", "Getpid"):
					x.Fun = simSel("Getpid")
				case isPkgSel(info, x.Fun, "os", "Getppid"):
					x.Fun = simSel("Getppid")
				case isPkgSel(info, x.Fun, "crypto/rand", "Read"):
					x.Fun = simSel("CryptoRead")
				case isPkgSel(info, x.Fun, "crypto/rand", "Text"):
					x.Fun = simSel("CryptoText")
				case isPkgFunc(info, x.Fun, "math/rand"), isPkgFunc(info, x.Fun, "math/rand/v2"):
					// the process-wide generator is seeded by the runtime: make it the simulator's
					sel := x.Fun.(*ast.SelectorExpr)
					switch sel.Sel.Name {
					case "New", "NewSource", "NewZipf", "NewPCG", "NewChaCha8", "Seed", "N":
					default:
						src := "Rand"
						if isPkgFunc(info, x.Fun, "math/rand/v2") {
							src = "RandV2"
						}
						x.Fun = &ast.SelectorExpr{X: &ast.CallExpr{Fun: simSel(src)}, Sel: ast.NewIdent(sel.Sel.Name)}
					}
				case isPkgSel(info, x.Fun, "maps", "Keys"), isPkgSel(info, x.Fun, "maps", "Values"), isPkgSel(info, x.Fun, "maps", "All"):
					if len(x.Args) == 1 {
						if tv, ok := info.Types[x.Args[0]]; ok {
							name := x.Fun.(*ast.SelectorExpr).Sel.Name
							id := newSite(x.Pos(), tv.Type, "maps."+name)
							x.Fun = simSel("Maps" + name)
							x.Args = []ast.Expr{intLit(id), x.Args[0]}
						}
					}
				}
			}
			return true
		})
	}

	instrumentMapAccesses(f, info)
	for _, d := range f.Decls {
		fd, ok := d.(*ast.FuncDecl)
		if !ok || fd.Body == nil {
			continue
		}
		curFunc = fd.Name.Name
		if fd.Recv != nil && len(fd.Recv.List) > 0 {
			curFunc = exprString(l.fset, fd.Recv.List[0].Type) + "." + fd.Name.Name
		}
		visit(fd.Body)
		fd.Body.List = append([]ast.Stmt{tickStmt()}, fd.Body.List...)
	}
	// function literals in package-level initialisers
	for _, d := range f.Decls {
		if gd, ok := d.(*ast.GenDecl); ok && gd.Tok == token.VAR {
			curFunc = "<pkg-init>"
			for _, s := range gd.Specs {
				for _, v := range s.(*ast.ValueSpec).Values {
					visit(v)
				}
			}
		}
	}
}

// containsRecvShallow looks for a channel receive in the header of a compound statement or
// in a return statement (places where R8 does not insert a scheduling point).
func containsRecvShallow(s ast.Stmt) bool {
	has := func(n ast.Node) bool {
		if n == nil {
			return false
		}
		found := false
		ast.Inspect(n, func(m ast.Node) bool {
			switch x := m.(type) {
			case *ast.FuncLit:
				return false
			case *ast.UnaryExpr:
				if x.Op == token.ARROW {
					found = true
				}
			}
			return !found
		})
		return found
	}
	switch x := s.(type) {
	case *ast.ReturnStmt:
		for _, e := range x.Results {
			if has(e) {
				return true
			}
		}
	case *ast.IfStmt:
		if x.Init != nil && has(x.Init) {
			return true
		}
		return has(x.Cond)
	case *ast.ForStmt:
		if x.Init != nil && has(x.Init) {
			return true
		}
		if x.Cond != nil && has(x.Cond) {
			return true
		}
	case *ast.SwitchStmt:
		if x.Init != nil && has(x.Init) {
			return true
		}
		if x.Tag != nil && has(x.Tag) {
			return true
		}
	case *ast.DeferStmt:
		return has(x.Call)
	}
	return false
}

func addImport(f *ast.File, path string) {
	for _, im := range f.Imports {
		if im.Path.Value == strconv.Quote(path) {
			return
		}
	}
	spec := &ast.ImportSpec{Path: &ast.BasicLit{Kind: token.STRING, Value: strconv.Quote(path)}}
	gd := &ast.GenDecl{Tok: token.IMPORT, Specs: []ast.Spec{spec}}
	f.Decls = append([]ast.Decl{gd}, f.Decls...)
	f.Imports = append(f.Imports, spec)
}

// dropUnusedImports removes imports whose package name is no longer referenced.
func dropUnusedImports(f *ast.File) {
	usedNames := map[string]bool{}
	ast.Inspect(f, func(n ast.Node) bool {
		if sel, ok := n.(*ast.SelectorExpr); ok {
			if id, ok := sel.X.(*ast.Ident); ok {
				usedNames[id.Name] = true
			}
		}
		return true
	})
	for _, d := range f.Decls {
		gd, ok := d.(*ast.GenDecl)
		if !ok || gd.Tok != token.IMPORT {
			continue
		}
		var keep []ast.Spec
		for _, s := range gd.Specs {
			im := s.(*ast.ImportSpec)
			if im.Name != nil && (im.Name.Name == "_" || im.Name.Name == ".") {
				keep = append(keep, s)
				continue
			}
			p, _ := strconv.Unquote(im.Path.Value)
			name := p[strings.LastIndex(p, "/")+1:]
			if len(name) >= 2 && name[0] == 'v' && strings.Trim(name[1:], "0123456789") == "" && strings.Contains(p, "/") {
				// major-version suffix: math/rand/v2 is package rand
				q := p[:strings.LastIndex(p, "/")]
				name = q[strings.LastIndex(q, "/")+1:]
			}
			if im.Name != nil {
				name = im.Name.Name
			}
			if usedNames[name] || p == module+"/simrt" {
				keep = append(keep, s)
			}
		}
		gd.Specs = keep
	}
}

func exprString(fset *token.FileSet, e ast.Expr) string {
	var b bytes.Buffer
	format.Node(&b, fset, e)
	return b.String()
}

func hasEmbedDirective(gd *ast.GenDecl, vs *ast.ValueSpec) bool {
	for _, cg := range []*ast.CommentGroup{gd.Doc, vs.Doc} {
		if cg == nil {
			continue
		}
		for _, c := range cg.List {
			if strings.HasPrefix(c.Text, "//go:embed") {
				return true
			}
		}
	}
	return false
}

// genReset renames init funcs, emits per-file var re-initialisers and the SimReset body.
func genReset(l *loader, pi *pkgInfo) {
	fileOf := func(pos token.Pos) int {
		for i, f := range pi.files {
			if f.FileStart <= pos && pos <= f.FileEnd {
				return i
			}
		}
		return 0
	}
	extra := make([][]string, len(pi.files))
	var calls []string
	inited := map[types.Object]bool{}
	for _, ini := range pi.info.InitOrder {
		for _, v := range ini.Lhs {
			inited[v] = true
		}
	}
	// 1. zero every package-level var that has no initialiser
	for _, f := range pi.files {
		for _, d := range f.Decls {
			gd, ok := d.(*ast.GenDecl)
			if !ok || gd.Tok != token.VAR {
				continue
			}
			for _, s := range gd.Specs {
				vs := s.(*ast.ValueSpec)
				if hasEmbedDirective(gd, vs) {
					continue
				}
				for _, n := range vs.Names {
					if n.Name == "_" {
						continue
					}
					if !inited[pi.info.Defs[n]] {
						calls = append(calls, fmt.Sprintf("simrt.Zero(&%s)", n.Name))
					}
				}
			}
		}
	}
	// 2. re-run initialisers in InitOrder, each emitted in its declaring file (imports)
	for i, ini := range pi.info.InitOrder {
		var lhs []string
		allBlank := true
		for _, v := range ini.Lhs {
			lhs = append(lhs, v.Name())
			if v.Name() != "_" {
				allBlank = false
			}
		}
		if allBlank {
			continue
		}
		fi := fileOf(ini.Rhs.Pos())
		fn := fmt.Sprintf("simInitVar%d", i)
		extra[fi] = append(extra[fi], fmt.Sprintf("func %s() { simrt.Tick(); %s = %s }", fn, strings.Join(lhs, ", "), exprString(l.fset, ini.Rhs)))
		calls = append(calls, fn+"()")
	}
	// 3. init funcs in file order
	k := 0
	for fi, f := range pi.files {
		for _, d := range f.Decls {
			fd, ok := d.(*ast.FuncDecl)
			if !ok || fd.Recv != nil || fd.Name.Name != "init" {
				continue
			}
			k++
			name := fmt.Sprintf("simInitFn%d", k)
			fd.Name = ast.NewIdent(name)
			// the process-level init is a no-op: state is built by SimReset before each run
			calls = append(calls, name+"()")
			_ = fi
		}
	}
	extra[0] = append(extra[0], fmt.Sprintf("func SimReset() {\n%s\n}", strings.Join(calls, "\n")))
	pi.extraSrc = extra
}

func copyFile(src, dst string) {
	if err := os.MkdirAll(filepath.Dir(dst), 0755); err != nil {
		die(err)
	}
	in, err := os.Open(src)
	if err != nil {
		die(err)
	}
	defer in.Close()
	o, err := os.Create(dst)
	if err != nil {
		die(err)
	}
	defer o.Close()
	if _, err := io.Copy(o, in); err != nil {
		die(err)
	}
}

func main() {
	if len(os.Args) < 4 {
		die("usage: siminstr <repo> <out> <simrt-dir> [extra-main.go ...]")
	}
	repo, out, simrtDir := os.Args[1], os.Args[2], os.Args[3]
	fset := token.NewFileSet()
	l := &loader{root: repo, fset: fset, std: importer.ForCompiler(fset, "source", nil), pkgs: map[string]*pkgInfo{}}

	// discover every package directory (non-test go files), skipping the golden test dir
	var pkgPaths []string
	filepath.WalkDir(repo, func(p string, d os.DirEntry, err error) error {
		if err != nil {
			return nil
		}
		if d.IsDir() {
			n := d.Name()
			if p != repo && (strings.HasPrefix(n, ".") || n == "test" || n == "testdata" || n == "vendor") {
				return filepath.SkipDir
			}
			ents, _ := os.ReadDir(p)
			for _, e := range ents {
				if strings.HasSuffix(e.Name(), ".go") && !strings.HasSuffix(e.Name(), "_test.go") {
					rel, _ := filepath.Rel(repo, p)
					if rel == "." {
						pkgPaths = append(pkgPaths, module)
					} else {
						pkgPaths = append(pkgPaths, module+"/"+filepath.ToSlash(rel))
					}
					break
				}
			}
		}
		return nil
	})
	sort.Strings(pkgPaths)
	for _, p := range pkgPaths {
		if _, err := l.Import(p); err != nil {
			die("typecheck:", err)
		}
	}

	var mains []string
	for _, path := range l.order {
		pi := l.pkgs[path]
		// rewrite first, so that the initialiser copies emitted by genReset already use the
		// simulator's seams (a package-level `var x = rand.N(..)` or `time.Now()`)
		for _, f := range pi.files {
			rewriteFile(l, pi, f)
		}
		genReset(l, pi)
		outDir := filepath.Join(out, strings.TrimPrefix(strings.TrimPrefix(path, module), "/"))
		// non-go files of the package directory (go:embed targets)
		ents, _ := os.ReadDir(pi.dir)
		for _, e := range ents {
			if e.Type().IsRegular() && !strings.HasSuffix(e.Name(), ".go") {
				if fi, err := e.Info(); err == nil && fi.Size() < 1<<20 && fi.Mode()&0111 == 0 {
					copyFile(filepath.Join(pi.dir, e.Name()), filepath.Join(outDir, e.Name()))
				}
			}
		}
		for i, f := range pi.files {
			if pi.isMain {
				for _, d := range f.Decls {
					if fd, ok := d.(*ast.FuncDecl); ok && fd.Recv == nil && fd.Name.Name == "main" {
						fd.Name = ast.NewIdent("simMain")
					}
				}
			}
			addImport(f, module+"/simrt")
			dropUnusedImports(f)
			var b bytes.Buffer
			if err := format.Node(&b, fset, f); err != nil {
				die("print:", err)
			}
			b.WriteString("\nvar _ = simrt.Tick\n")
			for _, s := range pi.extraSrc[i] {
				b.WriteString("\n" + s + "\n")
			}
			dst := filepath.Join(outDir, pi.names[i])
			os.MkdirAll(filepath.Dir(dst), 0755)
			src, err := format.Source(b.Bytes())
			if err != nil {
				os.WriteFile(dst+".broken", b.Bytes(), 0644)
				die("format:", dst, err)
			}
			if err := os.WriteFile(dst, src, 0644); err != nil {
				die(err)
			}
		}
		if pi.isMain {
			mains = append(mains, path)
			// reset every package this main (transitively) imports, in dependency order
			deps := map[string]bool{}
			var walk func(p *types.Package)
			walk = func(p *types.Package) {
				for _, im := range p.Imports() {
					if (im.Path() == module || strings.HasPrefix(im.Path(), module+"/")) && !deps[im.Path()] {
						deps[im.Path()] = true
						walk(im)
					}
				}
			}
			walk(pi.pkg)
			var sb strings.Builder
			sb.WriteString("package main\n\nimport (\n\t\"" + module + "/simrt\"\n")
			var resets []string
			for j, q := range l.order {
				if !deps[q] {
					continue
				}
				alias := fmt.Sprintf("p%d", j)
				fmt.Fprintf(&sb, "\t%s %q\n", alias, q)
				resets = append(resets, alias+".SimReset()")
			}
			sb.WriteString(")\n\nfunc simResetAll() {\n" + strings.Join(resets, "\n") + "\nSimReset()\n}\n\nfunc main() { simrt.Serve(simMain, simResetAll) }\n")
			if err := os.WriteFile(filepath.Join(outDir, "zz_simserve.go"), []byte(sb.String()), 0644); err != nil {
				die(err)
			}
		}
	}
	gm, err := os.ReadFile(filepath.Join(repo, "go.mod"))
	if err != nil {
		die(err)
	}
	os.WriteFile(filepath.Join(out, "go.mod"), gm, 0644)
	os.WriteFile(filepath.Join(out, "go.sum"), nil, 0644)
	ents, _ := os.ReadDir(simrtDir)
	for _, e := range ents {
		if strings.HasSuffix(e.Name(), ".go") && !strings.HasSuffix(e.Name(), "_test.go") {
			copyFile(filepath.Join(simrtDir, e.Name()), filepath.Join(out, "simrt", e.Name()))
		}
	}
	// extra, hand-written mains (lexsim): copied verbatim as cmd/zz_<name>/main.go, plus a
	// generated simResetAll covering every module package they (transitively) import
	for _, ex := range os.Args[4:] {
		name := strings.TrimSuffix(filepath.Base(ex), ".go")
		dstDir := filepath.Join(out, "cmd", "zz_"+name)
		copyFile(ex, filepath.Join(dstDir, "main.go"))
		ef, err := parser.ParseFile(fset, ex, nil, parser.ImportsOnly)
		if err != nil {
			die("extra main:", err)
		}
		deps := map[string]bool{}
		var walk func(path string)
		walk = func(path string) {
			pi, ok := l.pkgs[path]
			if !ok || deps[path] {
				return
			}
			deps[path] = true
			for _, im := range pi.pkg.Imports() {
				walk(im.Path())
			}
		}
		for _, im := range ef.Imports {
			p, _ := strconv.Unquote(im.Path.Value)
			walk(p)
		}
		var sb strings.Builder
		sb.WriteString("package main\n\nimport (\n")
		var resets []string
		for j, q := range l.order {
			if !deps[q] {
				continue
			}
			alias := fmt.Sprintf("p%d", j)
			fmt.Fprintf(&sb, "\t%s %q\n", alias, q)
			resets = append(resets, alias+".SimReset()")
		}
		sb.WriteString(")\n\nfunc simResetAll() {\n" + strings.Join(resets, "\n") + "\n}\n")
		if err := os.WriteFile(filepath.Join(dstDir, "zz_reset.go"), []byte(sb.String()), 0644); err != nil {
			die(err)
		}
	}
	sb, _ := json.MarshalIndent(map[string]any{"sites": sites, "mains": mains, "packages": l.order}, "", " ")
	os.WriteFile(filepath.Join(out, "sim_sites.json"), sb, 0644)
	fmt.Printf("siminstr: %d packages, %d mains, %d map-order sites\n", len(l.order), len(mains), len(sites))
}
