#!/bin/bash
# usage: tools/build_scratch.sh <repo> <outdir>   (debugging aid: instrumented + plain builds, kept)
set -eu
V="$(cd "$(dirname "$0")/.." && pwd)"; REPO="$1"; W="$2"
export GOFLAGS=-mod=mod GOPROXY=off GOSUMDB=off GOTOOLCHAIN=local CGO_ENABLED=0
GO=go1.26.8
rm -rf "$W"; mkdir -p "$W/snap"
(cd "$V" && $GO build -o bin/siminstr ./siminstr && $GO build -o bin/simdrive ./simdrive)
rsync -a --exclude .git --exclude '/ti' --exclude '/test/*_test.go' "$REPO"/ "$W/snap"/
mkdir -p "$W/snap/cmd/zz_simlab" && cp "$V/simlab/main.go" "$W/snap/cmd/zz_simlab/main.go"
"$V/bin/siminstr" "$W/snap" "$W/src" "$V/simrt" "$V/lexsim/lexsim.go" > "$W/instr.log" 2>&1
(cd "$W/src" && $GO build -tags verif -o "$W/ti-sim" . && $GO build -tags verif -o "$W/simlab-sim" ./cmd/zz_simlab)
(cd "$W/snap" && $GO build -o "$W/ti-real" .)
echo "built in $W"
