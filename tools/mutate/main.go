// mutate: guard-removal mutants for the sensitivity sweep (tools/mutant_sweep.sh).
//
//	mutate -list <file.go>          number of candidate guards in the file
//	mutate -apply N <file.go>       rewrite the file with guard N removed; prints what was removed
//
// A candidate is an `if` statement without else whose body is a single return / break /
// continue (the shape of the end-of-input, nil and bounds guards the properties rest on).
// Removing it keeps the code compiling in most cases; the sweep discards mutants that do not
// compile or that the golden suite notices.
package main

import (
	"bytes"
	"flag"
	"fmt"
	"go/ast"
	"go/format"
	"go/parser"
	"go/token"
	"os"
)

func main() {
	list := flag.Bool("list", false, "count candidates")
	apply := flag.Int("apply", -1, "remove candidate N")
	flag.Parse()
	path := flag.Arg(0)
	fset := token.NewFileSet()
	f, err := parser.ParseFile(fset, path, nil, parser.ParseComments)
	if err != nil {
		fmt.Fprintln(os.Stderr, err)
		os.Exit(2)
	}
	n := 0
	var removedDesc string
	var walkList func(list []ast.Stmt) []ast.Stmt
	isGuard := func(s ast.Stmt) bool {
		is, ok := s.(*ast.IfStmt)
		if !ok || is.Else != nil || is.Init != nil || len(is.Body.List) != 1 {
			return false
		}
		switch b := is.Body.List[0].(type) {
		case *ast.ReturnStmt:
			return true
		case *ast.BranchStmt:
			return b.Tok == token.BREAK || b.Tok == token.CONTINUE
		}
		return false
	}
	walkList = func(list []ast.Stmt) []ast.Stmt {
		var out []ast.Stmt
		for _, s := range list {
			if isGuard(s) {
				if n == *apply {
					var buf bytes.Buffer
					format.Node(&buf, fset, s)
					removedDesc = fmt.Sprintf("%s:%d: %s", path, fset.Position(s.Pos()).Line, bytes.ReplaceAll(buf.Bytes(), []byte("\n"), []byte(" ")))
					n++
					continue
				}
				n++
			}
			ast.Inspect(s, func(nd ast.Node) bool {
				switch x := nd.(type) {
				case *ast.BlockStmt:
					x.List = walkList(x.List)
					return false
				case *ast.CaseClause:
					x.Body = walkList(x.Body)
					return false
				case *ast.CommClause:
					x.Body = walkList(x.Body)
					return false
				}
				return true
			})
			out = append(out, s)
		}
		return out
	}
	for _, d := range f.Decls {
		if fd, ok := d.(*ast.FuncDecl); ok && fd.Body != nil {
			fd.Body.List = walkList(fd.Body.List)
		}
	}
	if *list {
		fmt.Println(n)
		return
	}
	if removedDesc == "" {
		fmt.Fprintln(os.Stderr, "no such candidate")
		os.Exit(2)
	}
	var buf bytes.Buffer
	if err := format.Node(&buf, fset, f); err != nil {
		fmt.Fprintln(os.Stderr, err)
		os.Exit(2)
	}
	os.WriteFile(path, buf.Bytes(), 0644)
	fmt.Println(removedDesc)
}
