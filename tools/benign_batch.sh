#!/bin/bash
# usage: tools/benign_batch.sh <logfile> <dir with patch.diff>...
# False-alarm test: each behaviour-preserving change is applied in a scratch worktree of /repo's
# HEAD and EVERY property's quick check runs against it (VERIF_REPO). Every check must exit 0.
set -u
V="$(cd "$(dirname "$0")/.." && pwd)"
LOG="$1"; shift
SNAP="$(mktemp -d /tmp/vsnap-XXXXXX)"
rsync -a --exclude .git --exclude replays --exclude bin "$V"/ "$SNAP"/
WT="$(mktemp -d /tmp/bn-XXXXXX)"; rmdir "$WT"
trap 'git -C /repo worktree remove --force "$WT" >/dev/null 2>&1; rm -rf "$WT" "$SNAP"' EXIT
: > "$LOG"
for D in "$@"; do
  D="$(cd "$D" && pwd)"
  git -C /repo worktree remove --force "$WT" >/dev/null 2>&1; rm -rf "$WT"
  git -C /repo worktree add -q --detach "$WT" HEAD || { echo "worktree failed" >> "$LOG"; exit 2; }
  echo "=== $D" >> "$LOG"
  git -C "$WT" apply "$D/patch.diff" || { echo "patch does not apply" >> "$LOG"; continue; }
  for P in ${PROPS:-C01 C02 C03 C04 C05 C19 C25 C26}; do
    t0=$(date +%s)
    (cd "$SNAP" && VERIF_REPO="$WT" ./run "$P" quick) > "$SNAP/out.txt" 2>&1
    code=$?
    grep -E "^VIOLATION|^INFRA|signature:|what:|^NOTE" "$SNAP/out.txt" | cut -c1-260 | head -8 >> "$LOG"
    echo "exit=$code wall=$(( $(date +%s) - t0 ))s property=$P change=$(basename "$(dirname "$D")")/$(basename "$D")" >> "$LOG"
  done
done
echo "BENIGN DONE" >> "$LOG"
