#!/bin/bash
# usage: tools/try_seeded.sh <seeded-dir> [tier] [extra env...]
# Applies <seeded-dir>/patch.diff to /repo, runs the check of the property named in meta.json,
# prints the verdict, and ALWAYS restores /repo (git checkout -- .). Never commits anything.
set -u
V="$(cd "$(dirname "$0")/.." && pwd)"
D="$(cd "$1" && pwd)"
TIER="${2:-quick}"
PROP="$(python3 -c "import json,sys;print(json.load(open('$D/meta.json'))['property'])")"
cd /repo || exit 2
if [ -n "$(git status --porcelain)" ]; then echo "refusing: /repo is not clean"; exit 2; fi
trap 'git -C /repo checkout -- . ; git -C /repo clean -fdq -- . 2>/dev/null' EXIT
git apply "$D/patch.diff" || { echo "patch does not apply"; exit 2; }
cd "$V"
out="$(mktemp)"
./run "$PROP" "$TIER" > "$out" 2>&1
code=$?
grep -E "^VIOLATION|^KNOWN-FINDING|^OK |^INFRA|signature:|what:" "$out" | cut -c1-260 | head -30
echo "exit=$code property=$PROP tier=$TIER seeded=$(basename "$(dirname "$D")")/$(basename "$D")"
rm -f "$out"
exit $code
