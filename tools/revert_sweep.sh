#!/bin/bash
# usage: tools/revert_sweep.sh <logfile> [commit...]
# Sensitivity to the defects that were repaired: for every "fixed:" entry of known_findings.jsonl
# (or the given commits) the repair is reverted in a scratch worktree of /repo's HEAD (never in
# /repo itself) and the property's quick check runs against that tree (VERIF_REPO). A check
# that is sensitive reports the defect again. Reverts that no longer apply cleanly are skipped.
set -u
V="$(cd "$(dirname "$0")/.." && pwd)"
LOG="$1"; shift
SNAP="$(mktemp -d /tmp/vsnap-XXXXXX)"
rsync -a --exclude .git --exclude replays --exclude bin "$V"/ "$SNAP"/
WT="$(mktemp -d /tmp/rv-XXXXXX)"; rmdir "$WT"
trap 'git -C /repo worktree remove --force "$WT" >/dev/null 2>&1; rm -rf "$WT" "$SNAP"' EXIT
: > "$LOG"
grep '^fixed:' "$V/known_findings.jsonl" | while read -r _ prop commit rest; do
  prop="${prop#property=}"
  if [ $# -gt 0 ]; then case " $* " in *" $commit "*) ;; *) continue ;; esac; fi
  git -C /repo worktree remove --force "$WT" >/dev/null 2>&1; rm -rf "$WT"
  git -C /repo worktree add -q --detach "$WT" HEAD || { echo "worktree failed" >> "$LOG"; exit 2; }
  echo "=== $prop $commit ${rest:0:110}" >> "$LOG"
  if ! git -C "$WT" revert --no-commit "$commit" >/dev/null 2>&1; then echo "skip: revert does not apply cleanly" >> "$LOG"; continue; fi
  if ! (cd "$WT" && GOFLAGS=-mod=mod GOPROXY=off GOSUMDB=off GOTOOLCHAIN=local go1.26.8 build ./... >/dev/null 2>&1); then echo "skip: reverted tree does not compile" >> "$LOG"; continue; fi
  t0=$(date +%s)
  (cd "$SNAP" && VERIF_REPO="$WT" ./run "$prop" quick) > "$SNAP/out.txt" 2>&1
  code=$?
  grep -E "^VIOLATION|^INFRA|signature:" "$SNAP/out.txt" | cut -c1-200 | head -8 >> "$LOG"
  echo "exit=$code wall=$(( $(date +%s) - t0 ))s reverted=$commit property=$prop" >> "$LOG"
done
echo "SWEEP DONE" >> "$LOG"
