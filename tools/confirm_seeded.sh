#!/bin/bash
# usage: tools/confirm_seeded.sh <dir with patch.diff demo.sh meta.json>
# Confirms, in a scratch worktree of /repo's HEAD (never in /repo itself), that the change
#   1. applies and compiles, 2. keeps the golden suite green (ti built from the patched tree;
#   tests that fail with a bare `timeout` under machine load are re-run one at a time),
#   3. makes demo.sh exit 1, while demo.sh exits 0 on the clean tree.
# Prints one line per step and a final CONFIRMED / NOT-CONFIRMED.
set -u
D="$(cd "$1" && pwd)"
export GOFLAGS=-mod=mod GOPROXY=off GOSUMDB=off GOTOOLCHAIN=local
GO=go1.26.8
WT="$(mktemp -d /tmp/cw-XXXXXX)"
rmdir "$WT"
git -C /repo worktree add -q --detach "$WT" HEAD || { echo "worktree failed"; exit 2; }
cleanup() { git -C /repo worktree remove --force "$WT" >/dev/null 2>&1; rm -rf "$WT"; }
trap cleanup EXIT
ok=1
bash "$D/demo.sh" "$WT" >/dev/null 2>&1; c=$?
echo "demo on clean tree: exit $c (want 0)"; [ $c = 0 ] || ok=0
git -C "$WT" apply "$D/patch.diff" || { echo "patch does not apply"; exit 1; }
(cd "$WT" && $GO build ./... ) || { echo "does not compile"; exit 1; }
echo "compiles: yes"
bash "$D/demo.sh" "$WT" >/dev/null 2>&1; c=$?
echo "demo on patched tree: exit $c (want 1)"; [ $c = 1 ] || ok=0
if [ "${SKIP_GOLDEN:-0}" != 1 ]; then
  (cd "$WT" && $GO build -o ti . ) || { echo "ti does not build"; exit 1; }
  out="$(cd "$WT" && $GO test ./test/... -count=1 -parallel=4 2>&1)"
  fails="$(echo "$out" | grep -oE '^--- FAIL: Test[A-Za-z0-9_]+' | awk '{print $3}' | sort -u)"
  round=0
  while [ -n "$fails" ] && [ $round -lt 4 ]; do
    round=$((round+1))
    still=""
    for t in $fails; do
      (cd "$WT" && $GO test ./test/... -count=1 -parallel=1 -run "^${t}\$" >/dev/null 2>&1) || still="$still $t"
    done
    fails="$(echo $still)"
  done
  rm -f "$WT/ti"
  if [ -z "$fails" ]; then echo "golden suite: ok (retry rounds: $round)"; else echo "golden suite: FAIL $fails"; ok=0; fi
fi
[ $ok = 1 ] && echo CONFIRMED || echo NOT-CONFIRMED
[ $ok = 1 ]
