#!/bin/bash
# usage: tools/try_batch.sh <logfile> <seeded-dir>...
# Runs the quick check of each seeded change's property with the change applied to /repo
# (git apply / git checkout -- .), one after the other, from a frozen copy of /verif so that
# the working copy can be edited meanwhile. Never commits anything; /repo is always restored.
set -u
V="$(cd "$(dirname "$0")/.." && pwd)"
LOG="$1"; shift
SNAP="$(mktemp -d /tmp/vsnap-XXXXXX)"
rsync -a --exclude .git --exclude replays --exclude bin "$V"/ "$SNAP"/
trap 'git -C /repo checkout -- . 2>/dev/null; git -C /repo clean -fdq -- . 2>/dev/null; rm -rf "$SNAP"' EXIT
: > "$LOG"
for D in "$@"; do
  D="$(cd "$D" && pwd)"
  PROP="$(python3 -c "import json;print(json.load(open('$D/meta.json'))['property'])")"
  echo "=== $(basename "$D") property=$PROP" >> "$LOG"
  if [ -n "$(git -C /repo status --porcelain)" ]; then echo "refusing: /repo is not clean" >> "$LOG"; exit 2; fi
  git -C /repo apply "$D/patch.diff" || { echo "patch does not apply" >> "$LOG"; continue; }
  t0=$(date +%s)
  (cd "$SNAP" && ./run "$PROP" quick) > "$SNAP/out.txt" 2>&1
  code=$?
  git -C /repo checkout -- . ; git -C /repo clean -fdq -- .
  grep -E "^VIOLATION|^OK |^INFRA|signature:|cases with" "$SNAP/out.txt" | cut -c1-240 | head -24 >> "$LOG"
  echo "exit=$code wall=$(( $(date +%s) - t0 ))s seeded=$(basename "$D")" >> "$LOG"
done
echo "BATCH DONE" >> "$LOG"
