#!/bin/bash
# usage: tools/try_batch.sh <logfile> <seeded-dir>...
# Runs the quick check of each seeded change's property against a scratch worktree of /repo's
# HEAD with the change applied (VERIF_REPO), one after the other, from a frozen copy of /verif
# so that the working copy can be edited meanwhile. /repo itself is never touched.
# (tools/try_seeded.sh does the same by applying the patch to /repo and restoring it.)
set -u
V="$(cd "$(dirname "$0")/.." && pwd)"
LOG="$1"; shift
SNAP="$(mktemp -d /tmp/vsnap-XXXXXX)"
rsync -a --exclude .git --exclude replays --exclude bin "$V"/ "$SNAP"/
WT="$(mktemp -d /tmp/tb-XXXXXX)"; rmdir "$WT"
trap 'git -C /repo worktree remove --force "$WT" >/dev/null 2>&1; rm -rf "$WT" "$SNAP"' EXIT
: > "$LOG"
for D in "$@"; do
  D="$(cd "$D" && pwd)"
  PROP="$(python3 -c "import json;print(json.load(open('$D/meta.json'))['property'])")"
  echo "=== $(basename "$D") property=$PROP" >> "$LOG"
  git -C /repo worktree remove --force "$WT" >/dev/null 2>&1; rm -rf "$WT"
  git -C /repo worktree add -q --detach "$WT" HEAD || { echo "worktree failed" >> "$LOG"; exit 2; }
  git -C "$WT" apply "$D/patch.diff" || { echo "patch does not apply" >> "$LOG"; continue; }
  t0=$(date +%s)
  (cd "$SNAP" && VERIF_REPO="$WT" ./run "$PROP" ${TIER:-quick}) > "$SNAP/out.txt" 2>&1
  code=$?
  grep -E "^VIOLATION|^OK |^INFRA|^NOTE|signature:|cases with" "$SNAP/out.txt" | cut -c1-240 | head -24 >> "$LOG"
  echo "exit=$code wall=$(( $(date +%s) - t0 ))s seeded=$(basename "$D")" >> "$LOG"
done
echo "BATCH DONE" >> "$LOG"
