#!/bin/bash
# usage: tools/mutant_sweep.sh <logfile> <count> [seed]
# Sensitivity to small realistic slips: removes one guard (an `if` whose body is a lone
# return/break/continue) at a time from the files the claimed properties are anchored in, in a
# scratch worktree. A mutant counts only if it compiles and the golden suite (ti built from the
# mutant) still passes; then the quick checks of the properties that file serves run against
# it. Prints per mutant: killed-by-<ID> / survived.
set -u
V="$(cd "$(dirname "$0")/.." && pwd)"
LOG="$1"; COUNT="$2"; SEED="${3:-1}"
export GOFLAGS=-mod=mod GOPROXY=off GOSUMDB=off GOTOOLCHAIN=local
GO=go1.26.8
(cd "$V" && $GO build -o bin/mutate ./tools/mutate) || exit 2
SNAP="$(mktemp -d /tmp/vsnap-XXXXXX)"
rsync -a --exclude .git --exclude replays --exclude bin "$V"/ "$SNAP"/
WT="$(mktemp -d /tmp/mu-XXXXXX)"; rmdir "$WT"
trap 'git -C /repo worktree remove --force "$WT" >/dev/null 2>&1; rm -rf "$WT" "$SNAP"' EXIT
: > "$LOG"
# file -> properties whose checks exercise it
FILES="lexer/lexer.go:C03,C02,C01 lexer/reader/reader.go:C03,C01 parser/read.go:C03,C01 parser/parser.go:C04,C01 cmd/out.go:C04,C05 cmd/in.go:C04 base/signature.go:C05 base/t_frame.go:C02,C01,C19 base/t_predicate.go:C01 builtin/json_loader.go:C19 builtin/define_builtin_method.go:C19 cmd/c2json/main.go:C26 cmd/rbs2json/main.go:C25 eval/def.go:C02,C01 eval/block.go:C01 eval/square_bracket.go:C01 eval/class.go:C02,C01 main.go:C01,C02"
cands=()
for fp in $FILES; do
  f="${fp%%:*}"; n=$("$V/bin/mutate" -list "/repo/$f" 2>/dev/null || echo 0)
  for i in $(seq 0 $((n-1))); do cands+=("$fp#$i"); done
done
echo "candidates: ${#cands[@]}" >> "$LOG"
# seeded choice without replacement
mapfile -t pick < <(printf '%s\n' "${cands[@]}" | python3 -c "
import sys,random
xs=[l.strip() for l in sys.stdin if l.strip()]
random.Random($SEED).shuffle(xs)
print('\n'.join(xs))")
done_n=0
for c in "${pick[@]}"; do
  [ "$done_n" -ge "$COUNT" ] && break
  fp="${c%%#*}"; idx="${c##*#}"; f="${fp%%:*}"; props="${fp##*:}"
  git -C /repo worktree remove --force "$WT" >/dev/null 2>&1; rm -rf "$WT"
  git -C /repo worktree add -q --detach "$WT" HEAD || exit 2
  desc=$("$V/bin/mutate" -apply "$idx" "$WT/$f" 2>&1) || continue
  (cd "$WT" && $GO build ./... >/dev/null 2>&1 && $GO build -o ti . >/dev/null 2>&1) || { echo "skip(no-compile) $desc" >> "$LOG"; continue; }
  out="$(cd "$WT" && $GO test ./test/... -count=1 -parallel=4 2>&1)"
  fails="$(echo "$out" | grep -oE '^--- FAIL: Test[A-Za-z0-9_]+' | awk '{print $3}' | sort -u)"
  for round in 1 2 3; do
    [ -z "$fails" ] && break
    still=""
    for t in $fails; do (cd "$WT" && $GO test ./test/... -count=1 -parallel=1 -run "^${t}\$" >/dev/null 2>&1) || still="$still $t"; done
    fails="$(echo $still)"
  done
  rm -f "$WT/ti"
  if [ -n "$fails" ]; then echo "skip(golden-notices) $desc" >> "$LOG"; continue; fi
  done_n=$((done_n+1))
  verdict="survived"
  for P in ${props//,/ }; do
    (cd "$SNAP" && VERIF_REPO="$WT" ./run "$P" quick) > "$SNAP/out.txt" 2>&1
    code=$?
    if [ $code = 1 ]; then verdict="killed-by-$P $(grep -m1 'signature:' "$SNAP/out.txt" | cut -c1-120)"; break; fi
    if [ $code = 2 ]; then verdict="infra-$P $(grep -m1 INFRA "$SNAP/out.txt" | cut -c1-120)"; break; fi
  done
  echo "mutant $done_n: $verdict || $desc" >> "$LOG"
done
echo "MUTANTS DONE" >> "$LOG"
